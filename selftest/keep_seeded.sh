#!/bin/bash
# selftest/keep_seeded.sh <src dir> <seeded id> <property> <demo dest dir> <mechanism> <needs> <caught_by> <signatures> <note>
# Copies a confirmed seeded change into seeded/<id>/ and writes meta.json.
src=$1; id=$2; prop=$3; dest=$4; mech=$5; needs=$6; caught=$7; sigs=$8; note=$9
cd "$(dirname "$0")/.." || exit 2
mkdir -p "seeded/$id"
cp "$src"/* "seeded/$id/" 2>/dev/null
python3 - "$id" "$prop" "$dest" "$mech" "$needs" "$caught" "$sigs" "$note" <<'PY'
import json,sys
id,prop,dest,mech,needs,caught,sigs,note=sys.argv[1:9]
m={"id":id,"property":prop,"source":"fresh sub-agent (wave 2) given only the property text and a scratch worktree",
"mechanism":mech,"needs_to_manifest":needs,
"confirmed_by_hand":["selftest/confirm_seeded.sh: scratch worktree of /repo HEAD, demo placed in "+dest,"demo on the unchanged tree: pass","git apply patch.diff; go build ./... and go test -vet=off -count=1 ./... in v5/: pass","demo with the change: FAIL"],
"check_run":"selftest/run_mutant.sh %s seeded/%s/patch.diff 20-30  (= bin/drv -prop %s -tier quick -repo <scratch copy with the patch>)"%(prop,id,prop),
"caught_by":caught,"signatures":sigs,"note":note}
json.dump(m,open("seeded/%s/meta.json"%id,"w"),indent=1)
PY
echo "kept seeded/$id"
