#!/bin/bash
# No-alarm self-test: every registered quick check on the unchanged tree under several
# VERIF_SEED values (exit must be 0 each time), then on the behaviour-preserving edit.
#   selftest/noalarm.sh [budget_s=15] [seeds="2 3 5 7 11 13 101 65537"]
cd "$(dirname "$0")/.." || exit 2
B=${1:-15}; SEEDS=${2:-"2 3 5 7 11 13 101 65537"}
fail=0
for s in $SEEDS; do
  for p in C04 C09 C10 C17 C20; do
    out=$(VERIF_SEED=$s VERIF_BUDGET_S=$B ./check $p quick 2>&1); rc=$?
    echo "seed=$s $p rc=$rc $(echo "$out" | grep '^runs=' | cut -c1-80)"
    if [ $rc -ne 0 ]; then fail=1; echo "$out" | grep -v '^  ' | tail -5; fi
  done
done
git checkout -- evidence 2>/dev/null
for n in selftest/mutants/NEUTRAL-*.diff; do
  for p in C04 C09 C10 C17 C20; do
    r=$(selftest/run_mutant.sh $p $n $B 2>&1 | grep '^RESULT')
    echo "$r" | cut -c1-160
    echo "$r" | grep -q ESCAPED || fail=1
  done
done
[ $fail -eq 0 ] && echo "NO-ALARM OK" || { echo "NO-ALARM FAILED"; exit 1; }
