#!/usr/bin/env python3
# Regenerates seeded/INDEX.md from seeded/*/meta.json.
import json,glob,os
root=os.path.join(os.path.dirname(os.path.abspath(__file__)),'..','seeded')
rows=[]
for m in sorted(glob.glob(os.path.join(root,'*','meta.json'))):
    d=json.load(open(m))
    def c(k):
        return str(d.get(k,'')).replace('|','\\|').replace('\n',' ')
    rows.append('| %s | %s | %s | %s | %s: %s | %s |'%(c('id'),c('property'),c('mechanism'),c('needs_to_manifest'),c('caught_by'),'`'+c('signatures')+'`',c('note')))
out='''# Seeded property-breaking changes and which check catches them

Each directory holds `patch.diff` (applies to /repo HEAD with `git apply`), the demonstration
(fails with the change, passes without) and `meta.json`. None of these changes is ever committed
in /repo. Re-run any of them with `selftest/run_mutant.sh <property> seeded/<id>/patch.diff`, all of
them with `selftest/seeded.sh`. This file is generated from the meta.json files by `selftest/index.py`.

| id | property | mechanism | needs | caught by (signatures) | remark |
|----|----------|-----------|-------|------------------------|--------|
'''+'\n'.join(rows)+'\n'
open(os.path.join(root,'INDEX.md'),'w').write(out)
print(len(rows),'entries')
