#!/bin/bash
# selftest/run_mutant.sh <property> <patch.diff> [budget_s]
# Applies a property-breaking patch to a scratch copy of /repo's HEAD, checks that it
# compiles and that the pinned v5 suite still passes, runs the property's quick check
# against the copy and reports CAUGHT (exit 1 with VIOLATION) or ESCAPED.
set -u
export GOFLAGS=-mod=mod GOPROXY=off GOSUMDB=off GOTOOLCHAIN=local
V=$(cd "$(dirname "$0")/.." && pwd)
prop=$1; patch=$(readlink -f "$2"); budget=${3:-}
S=${VERIF_SCRATCH:-/var/tmp}/verif-mutant-$$
rm -rf "$S"; mkdir -p "$S/repo"
trap 'rm -rf "$S"' EXIT
git -C /repo archive HEAD | tar -x -C "$S/repo"
(cd "$S/repo" && git init -q . && git apply "$patch") || { echo "RESULT $prop $(basename "$(dirname "$patch")")/$(basename "$patch") PATCH-DOES-NOT-APPLY"; exit 3; }
if ! (cd "$S/repo/v5" && go build ./... ) >"$S/build.log" 2>&1; then echo "RESULT $prop $patch DOES-NOT-COMPILE"; cat "$S/build.log" | head; exit 3; fi
if ! (cd "$S/repo/v5" && go test -count=1 ./... ) >"$S/test.log" 2>&1; then echo "RESULT $prop $patch SUITE-FAILS"; grep -v "^ok" "$S/test.log" | head -20; exit 3; fi
[ -n "$budget" ] && export VERIF_BUDGET_S=$budget
VERIF_SCRATCH="$S" "$V/bin/drv" -prop "$prop" -tier quick -repo "$S/repo" > "$S/check.log" 2>&1
rc=$?
sigs=$(grep -o "^violation: signature=[^ ]* class=[^ ]* count=[0-9]*" "$S/check.log" | sed 's/violation: signature=//; s/ class=[^ ]* count=/ x/' | sort -t x -k2 -n -r | head -8 | tr '\n' ';')
case $rc in
  1) echo "RESULT $prop $patch CAUGHT signatures: $sigs";;
  0) echo "RESULT $prop $patch ESCAPED"; grep "^runs=" "$S/check.log";;
  *) echo "RESULT $prop $patch CHECK-TROUBLE rc=$rc"; tail -15 "$S/check.log";;
esac
# the driver copies replay files of violations into $V/replays: they belong to the mutant, not to /repo
grep -o "replay=[^ ]*" "$S/check.log" | sed 's/replay=//' | xargs -r rm -f
exit $rc
