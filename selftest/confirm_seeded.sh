#!/bin/bash
# selftest/confirm_seeded.sh <dir with patch.diff + demo> <demo file name> <destination dir inside the repo, e.g. v5> [go test flags...]
# Confirms a seeded change in a scratch worktree of /repo HEAD: the patch applies and compiles, the
# pinned v5 suite passes with it, the demonstration FAILS with it and PASSES without it.
set -u
export GOFLAGS=-mod=mod GOPROXY=off GOSUMDB=off GOTOOLCHAIN=local
d=$(readlink -f "$1"); demo=$2; dest=$3; shift 3
W=/tmp/confirm-wt-$$
git -C /repo worktree add -q --detach "$W" HEAD || exit 3
trap 'git -C /repo worktree remove --force "$W" >/dev/null 2>&1' EXIT
cp "$d/$demo" "$W/$dest/zz_demo_test.go"
run_demo() { (cd "$W/$dest" && go test -vet=off -count=1 "$@" . ) >"$W/../confirm-$$.log" 2>&1; }
run_demo "$@"; base=$?
echo "demo on unchanged tree: rc=$base"; [ $base -ne 0 ] && tail -15 /tmp/confirm-$$.log
rm "$W/$dest/zz_demo_test.go"
(cd "$W" && git apply "$d/patch.diff") || { echo "PATCH-DOES-NOT-APPLY"; exit 3; }
(cd "$W/v5" && go build ./... ) || { echo "DOES-NOT-COMPILE"; exit 3; }
(cd "$W/v5" && go test -vet=off -count=1 ./... ) >/tmp/confirm-$$.suite 2>&1; suite=$?
echo "pinned suite with the change: rc=$suite"; [ $suite -ne 0 ] && grep -v '^ok' /tmp/confirm-$$.suite | head
cp "$d/$demo" "$W/$dest/zz_demo_test.go"
run_demo "$@"; mut=$?
echo "demo with the change: rc=$mut"; tail -6 /tmp/confirm-$$.log | cut -c1-300
rm -f /tmp/confirm-$$.log /tmp/confirm-$$.suite
[ $base -eq 0 ] && [ $suite -eq 0 ] && [ $mut -ne 0 ] && echo "CONFIRMED" || echo "NOT-CONFIRMED"
