#!/bin/bash
# selftest/confirm_seeded_legacy.sh <dir with patch.diff + demo> <demo file> [go test flags]
# Like confirm_seeded.sh, for demonstrations that live in the legacy root package (staged as a module).
set -u
export GOFLAGS=-mod=mod GOPROXY=off GOSUMDB=off GOTOOLCHAIN=local
d=$(readlink -f "$1"); demo=$2; shift 2
W=/tmp/confirm-wt-$$
git -C /repo worktree add -q --detach "$W" HEAD || exit 3
trap 'git -C /repo worktree remove --force "$W" >/dev/null 2>&1; rm -rf /tmp/confirm-leg-$$' EXIT
stage() { rm -rf /tmp/confirm-leg-$$; mkdir -p /tmp/confirm-leg-$$; cp "$W"/*.go /tmp/confirm-leg-$$/; cp "$d/$demo" /tmp/confirm-leg-$$/zz_demo_test.go
  printf 'module github.com/evanphx/json-patch\n\ngo 1.18\n\nrequire github.com/pkg/errors v0.9.1\n' > /tmp/confirm-leg-$$/go.mod; cp "$W/v5/go.sum" /tmp/confirm-leg-$$/go.sum; }
stage; (cd /tmp/confirm-leg-$$ && go test -vet=off -count=1 "$@" .) >/tmp/confirm-$$.log 2>&1; base=$?
echo "demo on unchanged tree: rc=$base"; [ $base -ne 0 ] && tail -8 /tmp/confirm-$$.log
(cd "$W" && git apply "$d/patch.diff") || { echo "PATCH-DOES-NOT-APPLY"; exit 3; }
(cd "$W/v5" && go build ./... && go test -vet=off -count=1 ./... ) >/tmp/confirm-$$.suite 2>&1; suite=$?
echo "pinned suite with the change: rc=$suite"
stage; (cd /tmp/confirm-leg-$$ && go test -vet=off -count=1 "$@" .) >/tmp/confirm-$$.log 2>&1; mut=$?
echo "demo with the change: rc=$mut"; grep -v "^    \|^---\|^===" /tmp/confirm-$$.log | tail -3 | cut -c1-300
rm -f /tmp/confirm-$$.log /tmp/confirm-$$.suite
[ $base -eq 0 ] && [ $suite -eq 0 ] && [ $mut -ne 0 ] && echo "CONFIRMED" || echo "NOT-CONFIRMED"
