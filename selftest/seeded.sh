#!/bin/bash
# Sensitivity self-test: every seeded change (sub-agent written) and every own mutant must be
# CAUGHT by the quick check of its property.   selftest/seeded.sh [budget_s=15]
# SEEDED_FILTER=<extended regex> restricts the run to matching ids (several runs can share the cores).
cd "$(dirname "$0")/.." || exit 2
B=${1:-15}; fail=0; F=${SEEDED_FILTER:-.}
for d in seeded/*/; do
  id=$(basename "$d"); prop=${id%%-*}
  [[ $id =~ $F ]] || continue
  # a change may be a violation of another property than the one it was written for (meta.json says so)
  cp=$(python3 -c "import json,sys; print(json.load(open('$d/meta.json')).get('check_property',''))" 2>/dev/null); [ -n "$cp" ] && prop=$cp
  b=$B; [ "$prop" = C04 ] && b=   # C04's enumerations must complete: no budget override
  r=$(selftest/run_mutant.sh "$prop" "$d/patch.diff" $b 2>&1 | grep '^RESULT')
  echo "$id: $(echo "$r" | sed 's/^RESULT [^ ]* [^ ]* //' | cut -c1-200)"
  echo "$r" | grep -q CAUGHT || fail=1
done
for f in selftest/mutants/C*.diff; do
  id=$(basename "$f" .diff); prop=${id%%-*}
  [[ $id =~ $F ]] || continue
  r=$(selftest/run_mutant.sh "$prop" "$f" "$B" 2>&1 | grep '^RESULT')
  echo "$id: $(echo "$r" | sed 's/^RESULT [^ ]* [^ ]* //' | cut -c1-200)"
  echo "$r" | grep -q "CAUGHT\|SUITE-FAILS" || fail=1
done
[ $fail -eq 0 ] && echo "SENSITIVITY OK" || { echo "SENSITIVITY: some change escaped"; exit 1; }
