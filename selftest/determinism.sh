#!/bin/bash
# Determinism self-test: for every engine, start PROCS processes with the same
# VERIF_SEED across GOMAXPROCS 1/4/16 (plain build; conc also -race) and diff
# their per-run trace dumps.  Any difference is a machinery bug.
#   selftest/determinism.sh [PROCS=30] [RUNS=300]      (VERIF_REPO=<copy> runs it on a modified tree, e.g. one with goroutines)
set -u
cd "$(dirname "$0")/.."
export GOFLAGS=-mod=mod GOPROXY=off GOSUMDB=off GOTOOLCHAIN=local
PROCS=${1:-30}; RUNS=${2:-300}; SEED=${VERIF_SEED:-1}
./setup.sh >/dev/null || exit 2
S=${VERIF_SCRATCH:-/var/tmp}/verif-determinism-$$
rm -rf "$S"; mkdir -p "$S/dumps"
trap 'rm -rf "$S"' EXIT
bin/simgen -repo "${VERIF_REPO:-/repo}" -simrt sim/simrt -harness sim/harness -out "$S/t" || exit 2
(cd "$S/t/v5" && go build -trimpath -o "$S/worker" ./zzverif/worker && go build -race -trimpath -o "$S/worker-race" ./zzverif/worker) || exit 2
mkdir -p "$S/bin"
(cd "$S/t/pristine/v5" && go build -trimpath -o "$S/bin/json-patch-v5" ./cmd/json-patch) || exit 2
(cd "$S/t/pristine/legacy" && go build -trimpath -o "$S/bin/json-patch-legacy" ./cmd/json-patch) || exit 2
echo "grep for unsorted map iteration in harness and runtime (must only show sorted/collected uses):"
grep -n "\.Range(" -r sim/harness sim/simrt | grep -v "_test.go" || echo "  none"
fail=0
run_set() { # prop engine binary runs tag
  local prop=$1 eng=$2 bin=$3 runs=$4 tag=$5
  for i in $(seq 1 "$PROCS"); do
    gmp=$(( i % 3 == 0 ? 1 : (i % 3 == 1 ? 4 : 16) ))
    GOMAXPROCS=$gmp GORACE="log_path=$S/race.$tag halt_on_error=0 exitcode=0" "$bin" -mode tracedump -prop "$prop" -engine "$eng" -seed "$SEED" -runs "$runs" -schedules 4 -bindir "$S/bin" > "$S/dumps/$tag.$i" 2>/dev/null &
    if (( i % 16 == 0 )); then wait; fi
  done
  wait
  local ref="$S/dumps/$tag.1" bad=0
  for i in $(seq 2 "$PROCS"); do cmp -s "$ref" "$S/dumps/$tag.$i" || bad=$((bad+1)); done
  echo "$tag: $PROCS processes x $(wc -l < "$ref") trace lines, $bad differ from the first"
  [ "$bad" -eq 0 ] || { fail=1; diff "$ref" "$S/dumps/$tag.2" | head -5; }
  [ -s "$ref" ] || { echo "$tag: empty dump"; fail=1; }
}
run_set C09 hist  "$S/worker"      "$RUNS"           C09-hist
run_set C04 hist  "$S/worker"      "$RUNS"           C04-hist
run_set C10 conc  "$S/worker"      $((RUNS/4))       C10-conc
run_set C10 conc  "$S/worker-race" $((RUNS/10))      C10-conc-race
run_set C17 codec "$S/worker"      $((RUNS*4))       C17-codec
run_set C20 cli   "$S/worker"      $((RUNS/2))       C20-cli
if [ "$fail" -eq 0 ]; then echo "DETERMINISM OK"; else echo "DETERMINISM FAILED"; exit 1; fi
