#!/bin/bash
# selftest/confirm_seeded_sh.sh <dir with patch.diff + demo.sh>   (demo.sh WORKTREE: exit 0 = holds, non-zero = violated)
set -u
export GOFLAGS=-mod=mod GOPROXY=off GOSUMDB=off GOTOOLCHAIN=local
d=$(readlink -f "$1"); demo=${2:-demo.sh}
W=/tmp/confirm-wt-$$
git -C /repo worktree add -q --detach "$W" HEAD || exit 3
trap 'git -C /repo worktree remove --force "$W" >/dev/null 2>&1' EXIT
(cd "$d" && bash ./$demo "$W") >/tmp/confirm-$$.log 2>&1; base=$?
echo "demo on unchanged tree: rc=$base"; [ $base -ne 0 ] && tail -8 /tmp/confirm-$$.log
(cd "$W" && git apply "$d/patch.diff") || { echo "PATCH-DOES-NOT-APPLY"; exit 3; }
(cd "$W/v5" && go build ./... ) || { echo "DOES-NOT-COMPILE"; exit 3; }
(cd "$W/v5" && go test -vet=off -count=1 ./... ) >/tmp/confirm-$$.suite 2>&1; suite=$?
echo "pinned suite with the change: rc=$suite"
(cd "$d" && bash ./$demo "$W") >/tmp/confirm-$$.log 2>&1; mut=$?
echo "demo with the change: rc=$mut"; tail -4 /tmp/confirm-$$.log | cut -c1-300
rm -f /tmp/confirm-$$.log /tmp/confirm-$$.suite
[ $base -eq 0 ] && [ $suite -eq 0 ] && [ $mut -ne 0 ] && echo "CONFIRMED" || echo "NOT-CONFIRMED"
