// Package cli is the C20 engine: the real json-patch binaries run as child
// processes in an environment the harness constructs from the seed (stdin
// stream, patch files in every state, argv), compared with an in-process fold
// of DecodePatch/Apply using the library from the same tree.
package cli

import (
	"bytes"
	"context"
	"encoding/json"
	"fmt"
	"hash/fnv"
	"os"
	"os/exec"
	"path/filepath"
	"runtime"
	"strings"
	"sync"
	"syscall"
	"time"
	"unsafe"

	"github.com/evanphx/json-patch/v5/zzverif/gen"
	"github.com/evanphx/json-patch/v5/zzverif/sim"
	"verif.local/simrt"
)

func init() {
	sim.OtherEngines["cli"] = RunWorker
	sim.OtherReplays["cli"] = ReplayFile
	sim.OtherDumps["cli"] = func(verifSeed uint64, prop string, n int64, binDir string) string {
		var sb strings.Builder
		dir, _ := os.MkdirTemp(filepath.Dir(binDir), "clidump")
		defer os.RemoveAll(dir)
		for i := int64(0); i < n; i++ {
			s := Gen(sim.RunSeed(verifSeed, prop, i))
			_, o, vs, err := runOne(s, binDir, filepath.Join(dir, "w"))
			if err != nil {
				fmt.Fprintf(&sb, "%d error %v\n", i, err)
				continue
			}
			fmt.Fprintf(&sb, "%d %016x v=%d exit=%d\n", i, obsHash(o), len(vs), o.Exit)
		}
		return sb.String()
	}
}

// File states (the fault kinds of S9).
const (
	StFile     = "file"                       // regular file with Content
	StAbsent   = "absent"                     // ENOENT at stat
	StDir      = "directory"                  // path is a directory
	StDangling = "dangling-link"              // symlink to nothing
	StProcMem  = "stat-ok-read-fails"         // /proc/self/mem: stat succeeds, read returns EIO
	StLinkOK   = "symlink"                    // symlink to a regular file with Content
	StLinkRel  = "relative-symlink-in-subdir" // sub/<name> -> "real.json" (relative target) next to sub/real.json with Content; a decoy real.json with another patch sits in the working directory
	StDevFd    = "dev-fd-pipe"                // /dev/fd/N: an inherited pipe (shell process substitution `-p <(cmd)`), fed with Content
	StFifo     = "fifo"                       // named pipe fed with Content by the harness (what `-p <(cmd)` gives): readable, not a regular file
)

type File struct {
	Name    string    `json:"name"`
	State   string    `json:"state"`
	Content sim.Bytes `json:"content,omitempty"`
	Note    string    `json:"note,omitempty"` // how the content was made (valid, torn, malformed, ...)
}

type Arg struct {
	File     int `json:"file"`
	Spelling int `json:"spelling"` // 0 "-p f", 1 "-pf", 2 "--patch-file f", 3 "--patch-file=f"
	// PathStyle: how the path is written: 0 "f", 1 "./f", 2 "d/../f" (d an existing directory), 3 absolute,
	// 4 "~f" (a name in the current directory that starts with a tilde: a symbolic link to f; HOME
	// is another directory, in which no such name exists), 5 "name with spaces f", 6 "q[x]*?f",
	// 7 "r[f" (likewise links)
	PathStyle int `json:"path_style,omitempty"`
	// Stray (non-empty): not a -p flag at all but a positional argument with this text, which the
	// command has no use for ("-", a stray file name); the -p flags around it still count, in order
	Stray string `json:"stray,omitempty"`
}

// Scen is one replayable execution of the command.
type Scen struct {
	Target string    `json:"target"` // v5 | legacy
	Seed   uint64    `json:"run_seed"`
	Stdin  sim.Bytes `json:"stdin"`
	Chunks []int     `json:"stdin_chunks,omitempty"` // sizes of the writes that deliver stdin (empty: one write)
	Files  []File    `json:"files"`
	Args   []Arg     `json:"args"`
	Note   string    `json:"note,omitempty"`
	// StdinFile: stdin is a regular file opened for reading (shell redirection "< doc.json") rather
	// than a pipe: read sizes, Stat().Size() and seekability differ
	StdinFile bool `json:"stdin_is_file,omitempty"`
	// StdinSkip (with StdinFile): the file starts with this many bytes that an earlier reader of
	// the same descriptor has consumed already (`{ read header; json-patch ...; } < file`): the
	// command inherits the descriptor at that offset and its document is what follows
	StdinSkip int `json:"stdin_file_offset,omitempty"`
	// NoFile: open-file limit of the child process (0: inherited) - a resource fault: a command
	// that opens its patch files one at a time is unaffected by a low limit
	NoFile int `json:"nofile_limit,omitempty"`
}

func (s *Scen) Clone() *Scen {
	c := *s
	c.Stdin = append(sim.Bytes(nil), s.Stdin...)
	c.Chunks = append([]int(nil), s.Chunks...)
	c.Files = make([]File, len(s.Files))
	for i, f := range s.Files {
		c.Files[i] = f
		c.Files[i].Content = append(sim.Bytes(nil), f.Content...)
	}
	c.Args = append([]Arg(nil), s.Args...)
	return &c
}

// Observed is what the process did.
type Observed struct {
	Exit    int    `json:"exit"`
	Stdout  string `json:"stdout"`
	Stderr  string `json:"stderr"`
	Timeout bool   `json:"timeout,omitempty"`
}

// Expected is what the in-process fold says.
type Expected struct {
	Success bool   `json:"success"`
	Out     string `json:"out,omitempty"`
	Why     string `json:"why,omitempty"`
}

// fold is the oracle: decode every file in command-line order, fold Apply over stdin.
func fold(s *Scen) (e Expected) {
	api := sim.APIFor(s.Target)
	// (inside a pristine simulated world: see sim.Alone)
	r, hung := sim.Alone(api, 4_000_000_000, func() { e = foldIn(api, s) })
	switch {
	case hung:
		e = Expected{Success: false, Why: "the library did not return"}
	case r != nil:
		e = Expected{Success: false, Why: fmt.Sprintf("the library panicked: %v", r)}
	}
	return e
}

func foldIn(api sim.API, s *Scen) (e Expected) {
	var patches []any
	for i, a := range s.Args {
		if a.Stray != "" {
			continue
		}
		if a.File < 0 || a.File >= len(s.Files) {
			return Expected{Why: "bad file index"}
		}
		f := s.Files[a.File]
		switch f.State {
		case StFile, StLinkOK, StFifo, StLinkRel, StDevFd:
		default:
			return Expected{Why: fmt.Sprintf("argument %d: file state %s", i, f.State)}
		}
		p, err := api.DecodePatch(append([]byte(nil), f.Content...))
		if err != nil {
			return Expected{Why: fmt.Sprintf("argument %d does not decode: %v", i, err)}
		}
		patches = append(patches, p)
	}
	doc := append([]byte(nil), s.Stdin...)
	for i, p := range patches {
		var err error
		if p == nil {
			// a patch that decoded to nil (JSON null) is an empty patch: Apply leaves the document as decoded/re-encoded
			p = emptyPatch(api)
		}
		doc, err = api.Apply(p, sim.FnApply, doc, sim.Opts{}, nil, "")
		if err != nil {
			return Expected{Why: fmt.Sprintf("patch %d does not apply: %v", i, err)}
		}
	}
	return Expected{Success: true, Out: string(doc)}
}

func emptyPatch(api sim.API) any {
	p, _ := api.DecodePatch([]byte("[]"))
	return p
}

// Exec materialises the scenario in dir and runs the binary.
func Exec(s *Scen, binDir, dir string) (*Observed, error) {
	os.RemoveAll(dir)
	if err := os.MkdirAll(dir, 0o755); err != nil {
		return nil, err
	}
	defer os.RemoveAll(dir)
	var fifos []string
	var feeders sync.WaitGroup
	var extra []*os.File // read ends of pipes the child inherits as fd 3, 4, ...
	devfd := map[string]int{}
	defer func() {
		for _, f := range extra {
			f.Close()
		}
	}()
	for _, f := range s.Files {
		p := filepath.Join(dir, f.Name)
		switch f.State {
		case StFile:
			if err := os.WriteFile(p, f.Content, 0o644); err != nil {
				return nil, err
			}
		case StDir:
			os.MkdirAll(p, 0o755)
		case StDangling:
			os.Symlink(filepath.Join(dir, "nowhere-"+f.Name), p)
		case StLinkOK:
			if err := os.WriteFile(p+".real", f.Content, 0o644); err != nil {
				return nil, err
			}
			os.Symlink(p+".real", p)
		case StProcMem:
			os.Symlink("/proc/self/mem", p)
		case StDevFd:
			r, w, err := os.Pipe()
			if err != nil {
				return nil, err
			}
			devfd[f.Name] = 3 + len(extra)
			extra = append(extra, r)
			content := f.Content
			go func() {
				w.Write(content) // patch texts are far below the pipe capacity
				w.Close()
			}()
		case StLinkRel:
			sub := filepath.Join(dir, "sub-"+f.Name)
			os.MkdirAll(sub, 0o755)
			if err := os.WriteFile(filepath.Join(sub, "real.json"), f.Content, 0o644); err != nil {
				return nil, err
			}
			os.Symlink("real.json", filepath.Join(sub, f.Name))
			// decoy: what a resolution of the link target against the working directory would find
			os.WriteFile(filepath.Join(dir, "real.json"), []byte(`[{"op":"add","path":"/decoy","value":true}]`), 0o644)
		case StFifo:
			if err := syscall.Mkfifo(p, 0o644); err != nil {
				return nil, err
			}
			fifos = append(fifos, p)
			content := f.Content
			feeders.Add(1)
			go func() {
				defer feeders.Done()
				// blocks until the command opens the pipe for reading (or the harness does, after the command is gone)
				w, err := os.OpenFile(p, os.O_WRONLY, 0)
				if err != nil {
					return
				}
				w.Write(content)
				w.Close()
			}()
		case StAbsent:
		}
	}
	defer func() {
		// release feeders whose pipe was never opened by the command
		for _, p := range fifos {
			if r, err := os.OpenFile(p, os.O_RDONLY|syscall.O_NONBLOCK, 0); err == nil {
				defer r.Close()
			}
		}
		feeders.Wait()
	}()
	var argv []string
	os.MkdirAll(filepath.Join(dir, "d"), 0o755)
	for _, a := range s.Args {
		if a.Stray != "" {
			argv = append(argv, a.Stray)
			continue
		}
		name := s.Files[a.File].Name
		if s.Files[a.File].State == StLinkRel {
			name = "sub-" + name + "/" + name
		}
		if s.Files[a.File].State == StDevFd {
			name = fmt.Sprintf("/dev/fd/%d", devfd[name])
			a.PathStyle = 0
		}
		switch a.PathStyle {
		case 1:
			name = "./" + name
		case 2:
			name = "d/../" + name
		case 3:
			name = filepath.Join(dir, name)
		case 4, 5, 6, 7:
			if st := s.Files[a.File].State; st == StFile || st == StLinkOK {
				alias := "~" + name
				switch a.PathStyle {
				case 5:
					alias = "a name with spaces " + name
				case 6:
					alias = "q[x]*?" + name // a name that is not matched by itself read as a glob pattern
				case 7:
					alias = "r[" + name // ... and one that is no pattern at all
				}
				os.Symlink(name, filepath.Join(dir, alias))
				name = alias
			}
		}
		switch a.Spelling {
		case 1:
			argv = append(argv, "-p"+name)
		case 2:
			argv = append(argv, "--patch-file", name)
		case 3:
			argv = append(argv, "--patch-file="+name)
		default:
			argv = append(argv, "-p", name)
		}
	}
	bin := filepath.Join(binDir, "json-patch-"+s.Target)
	ctx, cancel := context.WithTimeout(context.Background(), 20*time.Second)
	defer cancel()
	cmd := exec.CommandContext(ctx, bin, argv...)
	if s.NoFile > 0 {
		sh := fmt.Sprintf("ulimit -n %d; exec \"$0\" \"$@\"", s.NoFile)
		cmd = exec.CommandContext(ctx, "/bin/sh", append([]string{"-c", sh, bin}, argv...)...)
	}
	cmd.Dir = dir
	cmd.ExtraFiles = extra
	cmd.Env = []string{"PATH=/usr/bin:/bin", "HOME=" + filepath.Join(dir, "d"), "TMPDIR=" + filepath.Join(dir, "d")}
	var so, se bytes.Buffer
	cmd.Stdout = &so
	cmd.Stderr = &se
	// The stdin stream is a pipe the harness owns.  Each scripted chunk is written only after
	// the child has consumed the previous one (FIONREAD on the pipe reads 0), so the child's
	// read() calls see exactly the scripted boundaries: short reads on stdin are a decision of
	// the scenario, not of kernel timing, and replay exactly.
	pr, pw, err := os.Pipe()
	if err != nil {
		return nil, err
	}
	cmd.Stdin = pr
	var stdinFile *os.File
	if s.StdinFile {
		sp := filepath.Join(dir, ".stdin-document")
		if err := os.WriteFile(sp, append([]byte(strings.Repeat("#", s.StdinSkip)), s.Stdin...), 0o644); err != nil {
			return nil, err
		}
		if stdinFile, err = os.Open(sp); err != nil {
			return nil, err
		}
		defer stdinFile.Close()
		if s.StdinSkip > 0 {
			if _, err := stdinFile.Seek(int64(s.StdinSkip), 0); err != nil {
				return nil, err
			}
		}
		cmd.Stdin = stdinFile
	}
	if err := cmd.Start(); err != nil {
		pr.Close()
		pw.Close()
		return nil, err
	}
	pr.Close()
	exited := make(chan struct{})
	wdone := make(chan struct{})
	go func() {
		defer close(wdone)
		defer pw.Close()
		fd := pw.Fd()
		drained := func() bool {
			// wait until the pipe is empty or the child is gone
			for i := 0; ; i++ {
				var n int32
				if _, _, e := syscall.Syscall(syscall.SYS_IOCTL, fd, 0x541B /* FIONREAD */, uintptr(unsafe.Pointer(&n))); e != 0 || n == 0 {
					return e == 0
				}
				select {
				case <-exited:
					return false
				default:
				}
				if i < 200 {
					runtime.Gosched()
				} else {
					time.Sleep(20 * time.Microsecond)
				}
			}
		}
		data := s.Stdin
		if s.StdinFile {
			return
		}
		for _, n := range s.Chunks {
			if n <= 0 || len(data) == 0 {
				break
			}
			if n > len(data) {
				n = len(data)
			}
			if _, err := pw.Write(data[:n]); err != nil {
				return
			}
			data = data[n:]
			if !drained() {
				return
			}
			// give the reader time to block in its next read() before more bytes arrive
			// (only matters for readers that poll; a blocking read makes this a no-op)
		}
		if len(data) > 0 {
			pw.Write(data)
		}
	}()
	werr := cmd.Wait()
	close(exited)
	<-wdone
	o := &Observed{Stdout: so.String(), Stderr: se.String()}
	if ctx.Err() != nil {
		o.Timeout = true
		o.Exit = -1
		return o, nil
	}
	if werr != nil {
		if ee, ok := werr.(*exec.ExitError); ok {
			o.Exit = ee.ExitCode()
		} else {
			return nil, werr
		}
	}
	return o, nil
}

func trunc(s string) string {
	if len(s) > 300 {
		return s[:300] + "…"
	}
	return s
}

// Check compares observation and expectation.
func Check(s *Scen, e Expected, o *Observed) []sim.Violation {
	var vs []sim.Violation
	add := func(kind, detail string) {
		vs = append(vs, sim.Violation{Class: "cli", Sig: "cli|" + s.Target + "|" + kind, Detail: detail + fmt.Sprintf(" (args %s; stdin %q)", describeArgs(s), trunc(string(s.Stdin)))})
	}
	if o.Timeout {
		add("timeout", "the command did not terminate within 20 s")
		return vs
	}
	if e.Success {
		if o.Exit != 0 {
			add("exit-status-on-success", fmt.Sprintf("every patch applies (library fold gives %q) but the command exited %d; stderr %q", trunc(e.Out), o.Exit, trunc(o.Stderr)))
		} else if o.Stdout != e.Out {
			add("stdout-mismatch", fmt.Sprintf("stdout %q differs from the library fold %q", trunc(o.Stdout), trunc(e.Out)))
		}
		return vs
	}
	if o.Exit == 0 {
		add("exit-zero-on-failure", fmt.Sprintf("%s, but the command exited 0 with stdout %q", e.Why, trunc(o.Stdout)))
	}
	if o.Stdout != "" {
		add("stdout-on-failure", fmt.Sprintf("%s, but the command wrote %q to standard output (exit %d)", e.Why, trunc(o.Stdout), o.Exit))
	}
	if o.Stderr == "" {
		add("stderr-empty-on-failure", fmt.Sprintf("%s, but nothing was reported on standard error (exit %d)", e.Why, o.Exit))
	}
	return vs
}

func describeArgs(s *Scen) string {
	var parts []string
	for _, a := range s.Args {
		if a.Stray != "" {
			parts = append(parts, "stray:"+a.Stray)
			continue
		}
		f := s.Files[a.File]
		d := f.State
		if f.State == StFile || f.State == StLinkOK || f.State == StFifo || f.State == StLinkRel || f.State == StDevFd {
			d += ":" + f.Note
		}
		parts = append(parts, fmt.Sprintf("%s[%s]", f.Name, d))
	}
	return "[" + strings.Join(parts, " ") + "]"
}

// ---------------------------------------------------------------------------
// generation

// strayTexts: positional arguments ("-" is one by convention; the others name nothing that exists
// or the first patch file once more, without a flag).
var strayTexts = []string{"-", "stray.json", "p.json", "0"}

const chainDoc = `{"step":0,"x":"orig","log":[]}`

func chainPatch(i int) string {
	return fmt.Sprintf(`[{"op":"test","path":"/step","value":%d},{"op":"replace","path":"/step","value":%d},{"op":"add","path":"/log/-","value":"p%d"}]`, i, i+1, i)
}

// bigPatch is an applicable patch of more than 1 MiB (a large string value added and removed again
// around the usual chain step).
func bigPatch(i int) string {
	pad := strings.Repeat("0123456789abcdef", 70000)
	return fmt.Sprintf(`[{"op":"add","path":"/pad","value":"%s"},{"op":"remove","path":"/pad"},`, pad) + chainPatch(i)[1:]
}

func overwritePatch(i int) string {
	return fmt.Sprintf(`[{"op":"replace","path":"/x","value":"from-%d"}]`, i)
}

var faultStates = []string{StAbsent, StDir, StDangling, StProcMem}

// faultFile returns a file exhibiting fault kind k (beyond the four states: empty, torn, malformed, wrong shape, failing).
func faultFile(name string, k int, valid string) File {
	switch k {
	case 0, 1, 2, 3:
		return File{Name: name, State: faultStates[k]}
	case 4:
		return File{Name: name, State: StFile, Content: sim.Bytes(""), Note: "empty"}
	case 5:
		return File{Name: name, State: StFile, Content: sim.Bytes(valid[:len(valid)/2]), Note: "torn"}
	case 6:
		return File{Name: name, State: StFile, Content: sim.Bytes(strings.Replace(valid, ":", ";", 1)), Note: "malformed"}
	case 7:
		return File{Name: name, State: StFile, Content: sim.Bytes(`{"op":"add","path":"/a","value":1}`), Note: "wrong-shape"}
	case 8:
		return File{Name: name, State: StFile, Content: sim.Bytes(`[{"op":"test","path":"/step","value":"never"}]`), Note: "failing-test"}
	default:
		return File{Name: name, State: StFile, Content: sim.Bytes(`[{"op":"remove","path":"/absent/member"}]`), Note: "failing-remove"}
	}
}

const numFaultKinds = 10

// Enumerate returns the complete fault/ordering enumeration of the quick tier.
func Enumerate() []*Scen {
	var out []*Scen
	for _, target := range []string{"v5", "legacy"} {
		// every fault kind x every position in lists of length <= 3, all other patches valid (a chain)
		for n := 1; n <= 3; n++ {
			for pos := 0; pos < n; pos++ {
				for k := 0; k < numFaultKinds; k++ {
					s := &Scen{Target: target, Stdin: sim.Bytes(chainDoc), Note: fmt.Sprintf("enumeration: fault kind %d at position %d of %d", k, pos, n)}
					step := 0
					for i := 0; i < n; i++ {
						name := fmt.Sprintf("p%d.json", i)
						if i == pos {
							s.Files = append(s.Files, faultFile(name, k, chainPatch(step)))
						} else {
							s.Files = append(s.Files, File{Name: name, State: StFile, Content: sim.Bytes(chainPatch(step)), Note: "valid"})
							step++
						}
						s.Args = append(s.Args, Arg{File: i, Spelling: (i + k) % 4})
					}
					out = append(out, s)
				}
			}
		}
		// a valid patch delivered through a named pipe at every position (readable, but not a regular file)
		for n := 1; n <= 3; n++ {
			for pos := 0; pos < n; pos++ {
				s := &Scen{Target: target, Stdin: sim.Bytes(chainDoc), Note: fmt.Sprintf("enumeration: named pipe at position %d of %d", pos, n)}
				for i := 0; i < n; i++ {
					st := StFile
					if i == pos {
						st = StFifo
					}
					s.Files = append(s.Files, File{Name: fmt.Sprintf("p%d.json", i), State: st, Content: sim.Bytes(chainPatch(i)), Note: "valid"})
					s.Args = append(s.Args, Arg{File: i, Spelling: i % 4})
				}
				out = append(out, s)
			}
		}
		for n := 1; n <= 3; n++ {
			for pos := 0; pos < n; pos++ {
				s := &Scen{Target: target, Stdin: sim.Bytes(chainDoc), Note: fmt.Sprintf("enumeration: symlink with a relative target in a sub-directory at position %d of %d", pos, n)}
				for i := 0; i < n; i++ {
					st := StFile
					if i == pos {
						st = StLinkRel
					}
					s.Files = append(s.Files, File{Name: fmt.Sprintf("p%d.json", i), State: st, Content: sim.Bytes(chainPatch(i)), Note: "valid"})
					s.Args = append(s.Args, Arg{File: i, Spelling: i % 4, PathStyle: (i + pos) % 4})
				}
				out = append(out, s)
			}
		}
		for style := 0; style < 8; style++ {
			for sp := 0; sp < 4; sp++ {
				out = append(out, &Scen{Target: target, Stdin: sim.Bytes(chainDoc), Note: "enumeration: path styles", Files: []File{{Name: "p.json", State: StFile, Content: sim.Bytes(chainPatch(0)), Note: "valid"}, {Name: "q.json", State: StLinkOK, Content: sim.Bytes(chainPatch(1)), Note: "valid"}}, Args: []Arg{{File: 0, Spelling: sp, PathStyle: style}, {File: 1, Spelling: (sp + 1) % 4, PathStyle: (style + 1) % 8}}})
			}
		}
		for n := 1; n <= 3; n++ {
			for pos := 0; pos < n; pos++ {
				s := &Scen{Target: target, Stdin: sim.Bytes(chainDoc), Note: fmt.Sprintf("enumeration: inherited pipe /dev/fd/N at position %d of %d", pos, n)}
				for i := 0; i < n; i++ {
					st := StFile
					if i == pos {
						st = StDevFd
					}
					s.Files = append(s.Files, File{Name: fmt.Sprintf("p%d.json", i), State: st, Content: sim.Bytes(chainPatch(i)), Note: "valid"})
					s.Args = append(s.Args, Arg{File: i, Spelling: (i + 1) % 4})
				}
				out = append(out, s)
			}
		}
		out = append(out, &Scen{Target: target, Stdin: sim.Bytes(chainDoc), Note: "enumeration: malformed patch through a named pipe", Files: []File{{Name: "p.json", State: StFifo, Content: sim.Bytes(`[{"op":`), Note: "torn"}}, Args: []Arg{{File: 0}}})
		// every permutation of three order-sensitive patches (chain: only one order applies; overwrite: all apply, result differs)
		perms := [][]int{{0, 1, 2}, {0, 2, 1}, {1, 0, 2}, {1, 2, 0}, {2, 0, 1}, {2, 1, 0}}
		for _, kind := range []string{"chain", "overwrite"} {
			for _, pm := range perms {
				s := &Scen{Target: target, Stdin: sim.Bytes(chainDoc), Note: "enumeration: permutation " + fmt.Sprint(pm) + " of three " + kind + " patches"}
				for i := 0; i < 3; i++ {
					c := chainPatch(i)
					if kind == "overwrite" {
						c = overwritePatch(i)
					}
					s.Files = append(s.Files, File{Name: fmt.Sprintf("p%d.json", i), State: StFile, Content: sim.Bytes(c), Note: "valid"})
				}
				for _, i := range pm {
					s.Args = append(s.Args, Arg{File: i})
				}
				out = append(out, s)
			}
		}
		// no patches at all; the same file twice; symlinked file
		out = append(out, &Scen{Target: target, Stdin: sim.Bytes(chainDoc), Note: "enumeration: no -p arguments"})
		out = append(out, &Scen{Target: target, Stdin: sim.Bytes(chainDoc), Note: "enumeration: same file twice", Files: []File{{Name: "p.json", State: StFile, Content: sim.Bytes(overwritePatch(1)), Note: "valid"}}, Args: []Arg{{File: 0}, {File: 0, Spelling: 3}}})
		out = append(out, &Scen{Target: target, Stdin: sim.Bytes(chainDoc), Note: "enumeration: same chain file twice (second application fails)", Files: []File{{Name: "p.json", State: StFile, Content: sim.Bytes(chainPatch(0)), Note: "valid"}}, Args: []Arg{{File: 0}, {File: 0}}})
		out = append(out, &Scen{Target: target, Stdin: sim.Bytes(chainDoc), Note: "enumeration: symlink to a valid file", Files: []File{{Name: "p.json", State: StLinkOK, Content: sim.Bytes(chainPatch(0)), Note: "valid"}}, Args: []Arg{{File: 0, Spelling: 1}}})
		// a positional argument (four texts) at every position of a list of three chained patches - the
		// last of which is malformed in the second round, so that ignoring what follows the stray
		// argument shows as a success that should have been a failure, too
		for _, lastBad := range []bool{false, true} {
			for _, text := range strayTexts {
				for at := 0; at <= 3; at++ {
					sc := &Scen{Target: target, Stdin: sim.Bytes(chainDoc), Note: "enumeration: stray positional argument"}
					for i := 0; i < 3; i++ {
						f := File{Name: fmt.Sprintf("%c.json", 'p'+i), State: StFile, Content: sim.Bytes(chainPatch(i)), Note: "valid"}
						if lastBad && i == 2 {
							f.Content, f.Note = sim.Bytes(`[{"op":"add","path":"/x"`), "torn"
						}
						sc.Files = append(sc.Files, f)
						if i == at {
							sc.Args = append(sc.Args, Arg{Stray: text})
						}
						sc.Args = append(sc.Args, Arg{File: i, Spelling: (i + at) % 4})
					}
					if at == 3 {
						sc.Args = append(sc.Args, Arg{Stray: text})
					}
					out = append(out, sc)
				}
			}
		}
		// stdin arriving in pieces: two writes, byte by byte, a trailing newline as its own write
		for ci, chunks := range [][]int{{10}, {1, 1, 1, 1, 1, 1, 1, 1, 1, 1, 1, 1, 1, 1, 1, 1, 1, 1, 1, 1, 1, 1, 1, 1, 1, 1, 1, 1, 1}, {len(chainDoc)}, {len(chainDoc) - 1}} {
			in := chainDoc
			if ci == 2 {
				in += "\n"
			}
			out = append(out, &Scen{Target: target, Stdin: sim.Bytes(in), Chunks: chunks, Note: "enumeration: stdin in several writes", Files: []File{{Name: "p.json", State: StFile, Content: sim.Bytes(chainPatch(0)), Note: "valid"}}, Args: []Arg{{File: 0}}})
			out = append(out, &Scen{Target: target, Stdin: sim.Bytes(in), Chunks: chunks, Note: "enumeration: stdin in several writes, no patches"})
		}
		// stdin redirected from a regular file (with patches, without, empty, larger than one pipe buffer)
		for _, in := range []string{chainDoc, chainDoc + "\n", "", "{", strings.Repeat(" ", 70000) + chainDoc} {
			out = append(out, &Scen{Target: target, Stdin: sim.Bytes(in), StdinFile: true, Note: "enumeration: stdin is a regular file", Files: []File{{Name: "p.json", State: StFile, Content: sim.Bytes(chainPatch(0)), Note: "valid"}}, Args: []Arg{{File: 0}}})
			out = append(out, &Scen{Target: target, Stdin: sim.Bytes(in), StdinFile: true, Note: "enumeration: stdin is a regular file, no patches"})
		}
		// ... inherited at an offset: a header line of 1, 17 or 5000 bytes was consumed before
		for _, skip := range []int{1, 17, 5000} {
			out = append(out, &Scen{Target: target, Stdin: sim.Bytes(chainDoc), StdinFile: true, StdinSkip: skip, Note: "enumeration: stdin is a regular file at an offset", Files: []File{{Name: "p.json", State: StFile, Content: sim.Bytes(chainPatch(0)), Note: "valid"}}, Args: []Arg{{File: 0}}})
			out = append(out, &Scen{Target: target, Stdin: sim.Bytes(chainDoc + "\n"), StdinFile: true, StdinSkip: skip, Note: "enumeration: stdin is a regular file at an offset, no patches"})
		}
		// file boundaries matter: the whole-document pointer of a later file refers to what the
		// earlier files produced, and an intermediate result that cannot be serialised or read back
		// (root replaced by null) fails there and then
		for _, pair := range [][2]string{
			{`[{"op":"add","path":"/x","value":1}]`, `[{"op":"copy","from":"","path":"/whole"}]`},
			{`[{"op":"replace","path":"/x","value":"changed"}]`, `[{"op":"test","path":"","value":{"step":0,"x":"changed","log":[]}}]`},
			{`[{"op":"remove","path":"/log"}]`, `[{"op":"copy","from":"","path":"/before"},{"op":"move","from":"/before/step","path":"/s"}]`},
			{`[{"op":"add","path":"","value":null}]`, `[{"op":"add","path":"","value":{"fresh":true}}]`},
			{`[{"op":"replace","path":"","value":null}]`, `[{"op":"replace","path":"","value":[1]}]`},
			{`[{"op":"add","path":"","value":[1,2]}]`, `[{"op":"copy","from":"","path":"/-"}]`},
		} {
			out = append(out, &Scen{Target: target, Stdin: sim.Bytes(chainDoc), Note: "enumeration: whole-document reference / root replacement across file boundaries", Files: []File{
				{Name: "a.json", State: StFile, Content: sim.Bytes(pair[0]), Note: "valid"}, {Name: "b.json", State: StFile, Content: sim.Bytes(pair[1]), Note: "valid"}}, Args: []Arg{{File: 0}, {File: 1}}})
		}
		// a patch file of more than 1 MiB before / between / after ordinary ones (order must not depend on size)
		for pos := 0; pos < 3; pos++ {
			s := &Scen{Target: target, Stdin: sim.Bytes(chainDoc), Note: fmt.Sprintf("enumeration: 1 MiB patch file at position %d of 3", pos)}
			for i := 0; i < 3; i++ {
				c := chainPatch(i)
				if i == pos {
					c = bigPatch(i)
				}
				s.Files = append(s.Files, File{Name: fmt.Sprintf("p%d.json", i), State: StFile, Content: sim.Bytes(c), Note: "valid"})
				s.Args = append(s.Args, Arg{File: i})
			}
			out = append(out, s)
		}
		// a low open-file limit with many valid patch files
		{
			s := &Scen{Target: target, Stdin: sim.Bytes(chainDoc), Note: "enumeration: 100 applicable patch files under an open-file limit of 32", NoFile: 32}
			for i := 0; i < 100; i++ {
				s.Files = append(s.Files, File{Name: fmt.Sprintf("c%d.json", i), State: StFile, Content: sim.Bytes(chainPatch(i)), Note: "valid"})
				s.Args = append(s.Args, Arg{File: i})
			}
			out = append(out, s)
		}
		// exit-status arithmetic: 255, 256, 257 and 512 undecodable patch files; 256 applicable ones
		for _, nbad := range []int{255, 256, 257, 512} {
			s := &Scen{Target: target, Stdin: sim.Bytes(chainDoc), Note: fmt.Sprintf("enumeration: %d undecodable patch files", nbad), Files: []File{{Name: "bad.json", State: StFile, Content: sim.Bytes(`{"not":"a patch"`), Note: "malformed"}}}
			for i := 0; i < nbad; i++ {
				s.Args = append(s.Args, Arg{File: 0, Spelling: i % 4})
			}
			out = append(out, s)
		}
		// ... and the one bad file at position 256 or 512 of an otherwise valid list (an exit status
		// computed from the position wraps to 0 there): malformed, or failing to apply
		for _, pos := range []int{255, 256, 257, 512} {
			for kind, bad := range []File{{Name: "bad.json", State: StFile, Content: sim.Bytes(`[{"op":"add","path":"/a"`), Note: "torn"}, {Name: "bad.json", State: StFile, Content: sim.Bytes(`[{"op":"test","path":"/step","value":99}]`), Note: "fails to apply"}} {
				s := &Scen{Target: target, Stdin: sim.Bytes(chainDoc), Note: fmt.Sprintf("enumeration: the only bad patch file (kind %d) at position %d", kind, pos),
					Files: []File{{Name: "ok.json", State: StFile, Content: sim.Bytes(`[]`), Note: "valid"}, bad}}
				for i := 1; i <= pos+2; i++ {
					if i == pos {
						s.Args = append(s.Args, Arg{File: 1, Spelling: i % 4})
					} else {
						s.Args = append(s.Args, Arg{File: 0, Spelling: i % 4})
					}
				}
				out = append(out, s)
			}
		}
		{
			s := &Scen{Target: target, Stdin: sim.Bytes(chainDoc), Note: "enumeration: 256 applicable patch files"}
			for i := 0; i < 256; i++ {
				s.Files = append(s.Files, File{Name: fmt.Sprintf("c%d.json", i), State: StFile, Content: sim.Bytes(chainPatch(i)), Note: "valid"})
				s.Args = append(s.Args, Arg{File: i})
			}
			out = append(out, s)
		}
		for _, in := range []string{"", " ", "null", "[]", "{", chainDoc[:10], "7", `"s"`, "\xef\xbb\xbf" + chainDoc, "\xef\xbb\xbf", "\xff\xfe{\x00}\x00", chainDoc + "\n" + chainDoc, chainDoc + " x", "\r\n" + chainDoc + "\r\n"} {
			out = append(out, &Scen{Target: target, Stdin: sim.Bytes(in), Note: "enumeration: stdin variant", Files: []File{{Name: "p.json", State: StFile, Content: sim.Bytes(`[{"op":"add","path":"/a","value":1}]`), Note: "valid"}}, Args: []Arg{{File: 0}}})
			out = append(out, &Scen{Target: target, Stdin: sim.Bytes(in), Note: "enumeration: stdin variant, no patches"})
		}
	}
	return out
}

// Gen draws a random scenario.
func Gen(seed uint64) *Scen {
	r := gen.NewR(seed)
	g := gen.New(r)
	g.NoHuge = true
	g.MaxDepth = 3
	s := &Scen{Seed: seed, Target: "v5"}
	if r.P(300) {
		s.Target = "legacy"
	}
	chain := r.P(450)
	doc := chainDoc
	if !chain {
		doc = g.Doc()
	}
	switch x := r.Intn(100); {
	case x < 70:
		s.Stdin = sim.Bytes(doc)
	case x < 76:
		s.Stdin = sim.Bytes(" \n" + doc + "\n")
	case x < 82:
		s.Stdin = sim.Bytes(g.Corrupt(gen.FaultTorn, doc, ""))
	case x < 88:
		s.Stdin = sim.Bytes(g.Corrupt(1+r.Intn(gen.NumFaults-1), doc, g.Value(2)))
	case x < 92:
		s.Stdin = sim.Bytes("")
	default:
		s.Stdin = sim.Bytes(g.Scalar())
	}
	if r.P(25) {
		s.Stdin = append(sim.Bytes("\xef\xbb\xbf"), s.Stdin...)
	}
	if !chain && r.P(40) {
		// a large document: beyond one pipe buffer (64 KiB) and beyond bufio defaults
		var sb strings.Builder
		sb.WriteString("[")
		n := 3000 + r.Intn(12000)
		for i := 0; i < n; i++ {
			if i > 0 {
				sb.WriteString(",\n")
			}
			fmt.Fprintf(&sb, `{"i":%d,"v":"%s"}`, i, strings.Repeat("x", r.Intn(20)))
		}
		sb.WriteString("]\n")
		s.Stdin = sim.Bytes(sb.String())
		doc = `[{"i":0,"v":""},{"i":1,"v":""}]`
	} else if r.P(60) {
		// pretty-printed, multi-line input
		s.Stdin = sim.Bytes(strings.ReplaceAll(strings.ReplaceAll(string(s.Stdin), ",", ",\r\n "), "{", "{\n"))
	}
	if r.P(600) && len(s.Stdin) > 1 {
		for left := len(s.Stdin); left > 0 && len(s.Chunks) < 40; {
			n := 1 + r.Intn(64)
			s.Chunks = append(s.Chunks, n)
			left -= n
		}
	}
	n := r.Intn(6)
	if r.P(50) {
		n = 6 + r.Intn(7)
	}
	step := 0
	for i := 0; i < n; i++ {
		name := fmt.Sprintf("p%d.json", i)
		var f File
		switch x := r.Intn(100); {
		case x < 55:
			c := ""
			switch {
			case chain && r.P(700):
				c = chainPatch(step)
				step++
			case chain:
				c = overwritePatch(i)
			default:
				c = g.Patch(doc, 4)
			}
			f = File{Name: name, State: StFile, Content: sim.Bytes(c), Note: "generated"}
			if r.P(100) {
				f.State = StLinkOK
			} else if r.P(80) {
				f.State = StFifo
			} else if r.P(80) {
				f.State = StLinkRel
			} else if r.P(60) {
				f.State = StDevFd
			}
		case x < 70:
			f = faultFile(name, r.Intn(numFaultKinds), chainPatch(step))
		case x < 78:
			f = File{Name: name, State: StFile, Content: sim.Bytes(g.Corrupt(1+r.Intn(gen.NumFaults-1), g.Patch(doc, 3), g.Value(2))), Note: "corrupted"}
		case x < 84:
			f = File{Name: name, State: StFile, Content: sim.Bytes(g.Value(2)), Note: "arbitrary-json"}
		case x < 90:
			f = File{Name: name, State: StFile, Content: sim.Bytes(chainPatch(step + 1 + r.Intn(2))), Note: "out-of-order-chain"}
		default:
			f = File{Name: name, State: StFile, Content: sim.Bytes("null"), Note: "null-patch"}
		}
		s.Files = append(s.Files, f)
	}
	if chain && n > 0 && r.P(15) {
		// one applicable chain patch becomes a >1 MiB file
		for i := range s.Files {
			if s.Files[i].State == StFile && s.Files[i].Note == "generated" && strings.HasPrefix(string(s.Files[i].Content), `[{"op":"test","path":"/step"`) {
				s.Files[i].Content = sim.Bytes(`[{"op":"add","path":"/pad","value":"` + strings.Repeat("0123456789abcdef", 70000) + `"},{"op":"remove","path":"/pad"},` + string(s.Files[i].Content[1:]))
				s.Files[i].Note = "generated-1MiB"
				break
			}
		}
	}
	if n >= 6 && r.P(300) {
		// (not together with inherited pipes, which occupy descriptors of their own: the limit must
		// leave the runtime its handful of descriptors whatever the scenario)
		inherited := false
		for _, f := range s.Files {
			if f.State == StDevFd || f.State == StFifo {
				inherited = true
			}
		}
		if !inherited {
			s.NoFile = 24 + r.Intn(8)
		}
	}
	if r.P(150) {
		s.StdinFile = true
		s.Chunks = nil
		if r.P(300) {
			s.StdinSkip = 1 + r.Intn(200)
		}
	}
	for i := range s.Files {
		a := Arg{File: i, Spelling: r.Intn(4)}
		if r.P(300) {
			a.PathStyle = r.Intn(8)
		}
		s.Args = append(s.Args, a)
	}
	// shuffle / duplicate arguments so that command-line order differs from file numbering
	if len(s.Args) > 1 && r.P(400) {
		i, j := r.Intn(len(s.Args)), r.Intn(len(s.Args))
		s.Args[i], s.Args[j] = s.Args[j], s.Args[i]
	}
	if r.P(100) {
		// a positional argument the command has no use for, somewhere among the flags
		st := Arg{Stray: strayTexts[r.Intn(len(strayTexts))]}
		at := r.Intn(len(s.Args) + 1)
		s.Args = append(s.Args[:at], append([]Arg{st}, s.Args[at:]...)...)
	}
	if len(s.Args) > 0 && r.P(120) {
		// (a named pipe can be read once: never give it twice)
		if a := s.Args[r.Intn(len(s.Args))]; a.Stray == "" && s.Files[a.File].State != StFifo && s.Files[a.File].State != StDevFd {
			s.Args = append(s.Args, a)
		}
	}
	return s
}

func shapeHash(s *Scen) uint64 {
	b, _ := json.Marshal(s)
	h := fnv.New64a()
	h.Write(b)
	return h.Sum64()
}

type replayDoc struct {
	sim.ReplayFile
	CLI      *Scen     `json:"cli_scenario"`
	Expected Expected  `json:"expected"`
	Observed *Observed `json:"observed"`
}

func obsHash(o *Observed) uint64 {
	h := fnv.New64a()
	fmt.Fprintf(h, "%d|%s|%v|%v", o.Exit, o.Stdout, o.Stderr != "", o.Timeout)
	return h.Sum64()
}

func runOne(s *Scen, binDir, dir string) (Expected, *Observed, []sim.Violation, error) {
	simrt.Uninstall()
	e := fold(s)
	o, err := Exec(s, binDir, dir)
	if err != nil {
		return e, nil, nil, err
	}
	return e, o, Check(s, e, o), nil
}

func shrink(s *Scen, sigWanted, binDir, dir string, deadline time.Time) *Scen {
	best := s.Clone()
	try := func(c *Scen) bool {
		if time.Now().After(deadline) {
			return false
		}
		_, _, vs, err := runOne(c, binDir, dir)
		if err == nil && sim.HasSig(vs, sigWanted) {
			best = c
			return true
		}
		return false
	}
	for round := 0; round < 4; round++ {
		progress := false
		for i := len(best.Args) - 1; i >= 0; i-- {
			c := best.Clone()
			c.Args = append(c.Args[:i], c.Args[i+1:]...)
			if try(c) {
				progress = true
			}
		}
		if len(best.Chunks) > 0 {
			c := best.Clone()
			c.Chunks = nil
			if try(c) {
				progress = true
			}
		}
		for i := range best.Args {
			if best.Args[i].PathStyle != 0 {
				c := best.Clone()
				c.Args[i].PathStyle = 0
				if try(c) {
					progress = true
				}
			}
			if best.Args[i].Spelling != 0 {
				c := best.Clone()
				c.Args[i].Spelling = 0
				if try(c) {
					progress = true
				}
			}
		}
		for _, cand := range sim.TextCandidates(best.Stdin) {
			c := best.Clone()
			c.Stdin = sim.Bytes(cand)
			if try(c) {
				progress = true
				break
			}
		}
		for i := range best.Files {
			if best.Files[i].State != StFile {
				continue
			}
			for _, cand := range sim.TextCandidates(best.Files[i].Content) {
				c := best.Clone()
				c.Files[i].Content = sim.Bytes(cand)
				if try(c) {
					progress = true
					break
				}
			}
		}
		if !progress {
			break
		}
	}
	return best
}

// RunWorker is the cli engine loop.
func RunWorker(p sim.Params) *sim.Summary {
	start := time.Now()
	sum := &sim.Summary{Property: p.Prop, Engine: p.Engine, Worker: p.Worker, Faults: map[string]int64{}, Probes: map[string]int64{}, OutClasses: map[string]int64{},
		PerTarget: map[string]int64{}, PerFn: map[string]int64{}, TraceHashes: map[string]string{}, Enum: map[string]int64{}}
	hf := filepath.Join(p.OutDir, fmt.Sprintf("hashes.%s.%d.bin", p.Engine, p.Worker))
	hfile, _ := os.Create(hf)
	sum.HashFile = hf
	seen := map[uint64]struct{}{}
	vios := map[string]*sim.VioRecord{}
	dir := filepath.Join(p.OutDir, fmt.Sprintf("cliwork.%d", p.Worker))
	trouble := 0

	handle := func(s *Scen, own bool, idx string) {
		e, o, vs, err := runOne(s, p.BinDir, dir)
		if err != nil {
			trouble++
			if trouble > 5 {
				sim.MachineryTrouble = append(sim.MachineryTrouble, "cli harness cannot run the binary: "+err.Error())
			}
			return
		}
		if idx != "" {
			sum.TraceHashes[idx] = fmt.Sprintf("%016x", obsHash(o))
		}
		if !own {
			return
		}
		sum.Runs++
		sum.Scenarios++
		sum.Calls += int64(len(s.Args))
		sum.PerTarget[s.Target]++
		if e.Success {
			sum.OutClasses["success"]++
		} else {
			sum.OutClasses["failure:"+firstWords(e.Why)]++
		}
		for _, a := range s.Args {
			if a.Stray != "" {
				sum.Faults["stray_positional_argument"]++
				continue
			}
			f := s.Files[a.File]
			k := "patch_file_" + f.State
			if f.State == StFile || f.State == StLinkOK || f.State == StFifo || f.State == StLinkRel || f.State == StDevFd {
				k += ":" + f.Note
			}
			sum.Faults[k]++
		}
		if len(s.Chunks) > 0 {
			sum.Faults["stdin_chunked"]++
		}
		if len(s.Args) > 0 {
			sum.Nontrivial++
			h := shapeHash(s)
			if _, ok := seen[h]; !ok {
				seen[h] = struct{}{}
				if hfile != nil {
					var b [8]byte
					for k := 0; k < 8; k++ {
						b[k] = byte(h >> (8 * k))
					}
					hfile.Write(b[:])
				}
			}
			if len(sum.Samples) < 3 && sum.Runs%37 == 5 {
				sm, _ := json.Marshal(map[string]any{"scenario": s, "expected": e, "observed": o})
				sum.Samples = append(sum.Samples, sm)
			}
		}
		for _, v := range vs {
			rec, ok := vios[v.Sig]
			if ok {
				rec.Count++
				continue
			}
			rec = &sim.VioRecord{Sig: v.Sig, Class: v.Class, Detail: v.Detail, Count: 1, FirstSeed: s.Seed}
			vios[v.Sig] = rec
			sum.Violations = append(sum.Violations, rec)
			min := shrink(s, v.Sig, p.BinDir, dir, time.Now().Add(time.Duration(p.ShrinkS)*time.Second))
			fe, fo, fvs, _ := runOne(min, p.BinDir, dir)
			viol := v
			for _, fv := range fvs {
				if fv.Sig == v.Sig {
					viol = fv
				}
			}
			th := uint64(0)
			if fo != nil {
				th = obsHash(fo)
			}
			doc := &replayDoc{ReplayFile: sim.ReplayFile{Format: 1, Property: p.Prop, Engine: "cli", Tier: p.Tier, VerifSeed: p.VerifSeed, RunSeed: s.Seed, Build: p.Build,
				Violation: viol, TraceHash: fmt.Sprintf("%016x", th), Minimised: true}, CLI: min, Expected: fe, Observed: fo}
			hh := fnv.New32a()
			hh.Write([]byte(v.Sig))
			path := filepath.Join(p.ReplayDir, fmt.Sprintf("%s-%08x-cli%d-%016x.json", p.Prop, hh.Sum32(), p.Worker, s.Seed))
			b, _ := json.MarshalIndent(doc, "", " ")
			os.MkdirAll(p.ReplayDir, 0o755)
			os.WriteFile(path, b, 0o644)
			rec.ReplayFile = path
			rec.Calls = len(min.Args)
			rec.Detail = viol.Detail
		}
	}

	// 1. the complete enumeration (split over the workers)
	enum := Enumerate()
	done := true
	for i, s := range enum {
		if i%p.NWorkers != p.Worker {
			continue
		}
		if time.Now().After(p.Deadline) {
			done = false
			break
		}
		s.Seed = uint64(i)
		handle(s, true, "")
		sum.Enum["fault_and_order_enumeration"]++
	}
	if done {
		sum.Exhaustive = []string{fmt.Sprintf("every fault kind (%d) x every position in -p lists of length 1..3 with all other patches valid, every permutation of three chained and of three overwriting patches, no/duplicate/symlinked arguments, 14 stdin variants (empty, other roots, torn, byte-order marks, trailing data), 255/256/257/512 patch arguments (all undecodable; all applicable; the only bad one at that position), a 1 MiB patch file at each of 3 positions, stdin redirected from a regular file (5 documents, with and without patches; inherited at offsets 1, 17 and 5000), six two-file lists whose second file refers to the whole document or replaces a null root, 100 patch files under an open-file limit of 32, stdin delivered in 1/2/n writes, a named pipe, an inherited pipe (/dev/fd/N) and a relative symlink in a sub-directory as patch file at every position, 8 path styles (plain, ./, d/../, absolute, a name starting with a tilde, with spaces, with glob metacharacters, with an unclosed bracket) x 4 flag spellings, a stray positional argument (4 texts) at each position of a three-patch list - for both binaries (%d executions)", numFaultKinds, len(enum))}
	}
	// 2. seeded random scenarios
	for i := int64(0); i < p.MaxRuns && time.Now().Before(p.Deadline); i++ {
		gi := int64(p.Worker) + i*int64(p.NWorkers)
		own := true
		if i%50 == 49 {
			gi = int64((p.Worker+1)%p.NWorkers) + (i-49)*int64(p.NWorkers)
			own = false
		}
		seed := sim.RunSeed(p.VerifSeed, p.Prop, gi)
		s := Gen(seed)
		idx := ""
		if i%50 == 0 || !own {
			idx = fmt.Sprint(gi)
		}
		if own {
			if sum.FirstSeed == 0 {
				sum.FirstSeed = seed
			}
			sum.LastSeed = seed
		}
		handle(s, own, idx)
	}
	if hfile != nil {
		hfile.Close()
	}
	os.RemoveAll(dir)
	sum.WallS = time.Since(start).Seconds()
	sum.Machinery = sim.MachineryTrouble
	return sum
}

func firstWords(s string) string {
	f := strings.Fields(s)
	if len(f) > 5 {
		f = f[:5]
	}
	out := strings.Join(f, " ")
	// drop digits so that classes stay few
	return strings.Map(func(r rune) rune {
		if r >= '0' && r <= '9' {
			return -1
		}
		return r
	}, out)
}

// ReplayFile re-executes a cli replay file.
func ReplayFile(path, binDir string) (*sim.ReplayFile, *sim.ReplayResult, error) {
	b, err := os.ReadFile(path)
	if err != nil {
		return nil, nil, err
	}
	var doc replayDoc
	if err := json.Unmarshal(b, &doc); err != nil {
		return nil, nil, err
	}
	if doc.CLI == nil {
		return nil, nil, fmt.Errorf("no cli scenario in %s", path)
	}
	dir, err := os.MkdirTemp(filepath.Dir(binDir), "clireplay")
	if err != nil {
		return nil, nil, err
	}
	defer os.RemoveAll(dir)
	_, o, vs, err := runOne(doc.CLI, binDir, filepath.Join(dir, "w"))
	if err != nil {
		return nil, nil, err
	}
	res := &sim.ReplayResult{TraceHash: fmt.Sprintf("%016x", obsHash(o)), Violations: vs}
	res.Reproduced = sim.HasSig(vs, doc.Violation.Sig)
	res.SameTrace = strings.EqualFold(res.TraceHash, doc.TraceHash)
	return &doc.ReplayFile, res, nil
}
