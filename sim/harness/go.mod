// Placeholder so that `go build ./...` in /verif/sim does not descend here.
// The .go files of this tree are copied into the scratch v5 module as
// github.com/evanphx/json-patch/v5/zzverif/... by simgen (go.mod is not copied).
module github.com/evanphx/json-patch/v5/zzverif

go 1.18
