// worker executes simulated runs of one engine for one property and writes a
// summary for the driver; it also replays violation files.
package main

import (
	"encoding/json"
	"flag"
	"fmt"
	"os"
	"path/filepath"
	"runtime"
	"runtime/metrics"
	"time"

	_ "github.com/evanphx/json-patch/v5/zzverif/cli"
	_ "github.com/evanphx/json-patch/v5/zzverif/codec"
	"github.com/evanphx/json-patch/v5/zzverif/sim"
	"verif.local/simrt"
)

func main() {
	mode := flag.String("mode", "run", "run | replay")
	prop := flag.String("prop", "C09", "property id")
	engine := flag.String("engine", "hist", "hist | conc | enum | codec | cli")
	tier := flag.String("tier", "quick", "quick | thorough")
	seed := flag.Uint64("seed", 1, "VERIF_SEED")
	wk := flag.Int("worker", 0, "worker index")
	nw := flag.Int("nworkers", 1, "number of workers")
	maxRuns := flag.Int64("runs", 1000, "maximum runs of this worker")
	budget := flag.Float64("budget_s", 30, "wall-clock budget of this worker (seconds)")
	out := flag.String("out", ".", "output directory for summaries")
	replayDir := flag.String("replays", ".", "directory for replay files")
	shrinkS := flag.Int("shrink_s", 20, "time box for minimising one violation (seconds)")
	file := flag.String("file", "", "replay file")
	tree := flag.String("tree", "", "sha256 of the instrumented tree")
	schedules := flag.Int("schedules", 6, "schedules per concurrent scenario")
	bin := flag.String("bindir", "", "directory with the built command binaries (cli engine)")
	flag.Parse()

	// (the first timer of a process registers a runtime metric; do that before the goroutine below
	// starts reading metrics, or the race detector reports the runtime against itself)
	time.NewTimer(time.Hour).Stop()
	// Safety net, not an oracle: the sandbox has no memory limit, so a change that allocates
	// without bound must not take the machine down.  The worker gives up (exit 3 = machinery
	// trouble for the driver, which still reports what reproduces from the replay files).
	go func() {
		sample := []metrics.Sample{{Name: "/memory/classes/total:bytes"}, {Name: "/memory/classes/heap/released:bytes"}, {Name: "/memory/classes/heap/stacks:bytes"}, {Name: "/memory/classes/heap/objects:bytes"}}
		limit := uint64(10 << 30)
		memlog := os.Getenv("VERIF_MEMLOG") != ""
		for n := 0; ; n++ {
			time.Sleep(250 * time.Millisecond)
			metrics.Read(sample)
			if sample[0].Value.Kind() != metrics.KindUint64 {
				continue
			}
			// memory the process holds: what the runtime mapped minus what it gave back
			held := sample[0].Value.Uint64() - sample[1].Value.Uint64()
			if memlog && n%8 == 0 {
				fmt.Fprintf(os.Stderr, "mem: index=%d held=%dM released=%dM stacks=%dM objects=%dM\n", sim.CurIndex.Load(), held>>20, sample[1].Value.Uint64()>>20, sample[2].Value.Uint64()>>20, sample[3].Value.Uint64()>>20)
			}
			if held > limit {
				fmt.Fprintf(os.Stderr, "worker: memory use exceeded %d bytes at run index %d (stacks %d, heap objects %d); giving up (machinery safety net, not a verdict)\n", limit, sim.CurIndex.Load(), sample[2].Value.Uint64(), sample[3].Value.Uint64())
				os.Exit(3)
			}
		}
	}()

	build := map[string]string{"go": runtime.Version(), "race": fmt.Sprint(simrt.RaceEnabled), "instrumented_tree_sha256": *tree}
	exe, _ := os.Executable()

	switch *mode {
	case "tracedump":
		fmt.Print(sim.TraceDump(*prop, *engine, *seed, *maxRuns, *schedules, *bin))
		return
	case "one":
		// debugging aid: execute one global run index and print its trace
		fmt.Print(sim.DebugOne(*prop, *engine, *seed, *maxRuns))
		return
	case "replay":
		rf, res, err := sim.ReplayAny(*file, *bin)
		if err != nil {
			fmt.Fprintln(os.Stderr, "replay:", err)
			os.Exit(2)
		}
		b, _ := json.MarshalIndent(res, "", " ")
		fmt.Println(string(b))
		if res.Reproduced {
			fmt.Printf("REPRODUCED property=%s signature=%s same_trace=%v\n", rf.Property, rf.Violation.Sig, res.SameTrace)
			os.Exit(1)
		}
		fmt.Printf("REPLAY-CLEAN property=%s signature=%s\n", rf.Property, rf.Violation.Sig)
		os.Exit(0)
	case "run":
		p := sim.Params{Prop: *prop, Engine: *engine, Tier: *tier, VerifSeed: *seed, Worker: *wk, NWorkers: *nw, MaxRuns: *maxRuns,
			Deadline: time.Now().Add(time.Duration(*budget * float64(time.Second))), OutDir: *out, ReplayDir: *replayDir, ShrinkS: *shrinkS,
			Build: build, SelfExe: exe, Schedules: *schedules, BinDir: *bin}
		fmt.Fprintf(os.Stderr, "worker %d/%d prop=%s engine=%s VERIF_SEED=%d race=%v\n", *wk, *nw, *prop, *engine, *seed, simrt.RaceEnabled)
		var s *sim.Summary
		switch *engine {
		case "hist":
			s = sim.RunHistWorker(p)
		case "conc":
			s = sim.RunConcWorker(p)
		case "enum":
			s = sim.RunEnumWorker(p)
		case "hist3":
			s = sim.RunHistEnumWorker(p)
		default:
			s = sim.RunOtherWorker(p)
		}
		if s == nil {
			fmt.Fprintln(os.Stderr, "unknown engine", *engine)
			os.Exit(2)
		}
		b, _ := json.Marshal(s)
		name := filepath.Join(*out, fmt.Sprintf("summary.%s.%d.json", *engine, *wk))
		if simrt.RaceEnabled {
			name = filepath.Join(*out, fmt.Sprintf("summary.%s-race.%d.json", *engine, *wk))
		}
		if err := os.WriteFile(name, b, 0o644); err != nil {
			fmt.Fprintln(os.Stderr, err)
			os.Exit(2)
		}
	default:
		fmt.Fprintln(os.Stderr, "unknown mode")
		os.Exit(2)
	}
}
