// Package gen produces the workloads: JSON texts, RFC 6902 patches, RFC 7396
// merge patches and corrupted-storage variants of them.  Everything is a pure
// function of the PRNG state, so a run seed determines the scenario.
package gen

import (
	"fmt"
	"strconv"
	"strings"

	"github.com/evanphx/json-patch/v5/zzverif/jr"
)

// R is a splitmix64 PRNG (own code: independent of the Go release).
type R struct{ s uint64 }

func NewR(seed uint64) *R { return &R{s: seed} }

func (r *R) U64() uint64 {
	r.s += 0x9e3779b97f4a7c15
	z := r.s
	z = (z ^ (z >> 30)) * 0xbf58476d1ce4e5b9
	z = (z ^ (z >> 27)) * 0x94d049bb133111eb
	return z ^ (z >> 31)
}
func (r *R) Intn(n int) int {
	if n <= 1 {
		return 0
	}
	return int(r.U64() % uint64(n))
}
func (r *R) Bool() bool             { return r.U64()&1 == 1 }
func (r *R) P(permille int) bool    { return r.Intn(1000) < permille }
func (r *R) Pick(s []string) string { return s[r.Intn(len(s))] }
func (r *R) Fork() *R               { return NewR(r.U64()) }

var memberNames = []string{
	"a", "b", "c", "d", "foo", "bar", "baz", "", "a/b", "m~n", "~1", "<x>", "a&b", "é", "\u2028", "k\"q", "back\\slash",
	"metadata", "metadatas", "hostname", "hostnames", "abcdefg", "abcdefgh", "abcdefghi", "abcdefghijklmnop", "abcdefghijklmnopq",
	"0", "1", "-", "00", "-1", " ", "key with space", "\U0001F600", "null", "\t", "%s", "100%", "a.b", "$ref", "#",
}

var numberLits = []string{
	"0", "1", "-1", "2", "10", "1.0", "-0", "1e400", "12345678901234567890123", "0.1", "1E+2", "2.50", "1e-7", "-0.0", "3.14159", "100", "1e2",
	"9007199254740993", "-1E-400", "0e0",
}

var stringLits = []string{
	`""`, `"a"`, `"foo"`, `"bar"`, `"hello world"`, `"<script>"`, `"a&b"`, `"\u003c"`, `"\u2028"`, "\"\u2028\"", `"\n"`, `"\\"`, `"\""`, `"\/"`,
	`"\ud83d\ude00"`, "\"\U0001F600\"", `"\ud800"`, `"\udc00x"`, `"\udc00\udc00"`, `"\ud800\ud800\udc00"`, `"\udbff\udfff"`, `"\ud83dx"`, `"\ude00\ud83d"`, `"\uD83D\uDE00\uDE00"`, `"é"`, `"\u00e9"`, `"tab\there"`, `"\b\f"`, `"null"`, `"0"`, `"~0~1"`, `"a/b"`,
	`"\u0000"`, `"\u001f"`, `"` + "\x7f" + `"`, `"100% sure"`, `"%s %d %v"`, `"%%"`, `"%!s(MISSING)"`, `"$1 ${x} \\1"`, `"'; --"`, `"a\u0000b"`,
}

// G generates workloads.
type G struct {
	R *R
	// MaxDepth bounds nesting of ordinary values.
	MaxDepth int
	// Awkward raises the share of nulls, empty names and odd spellings.
	Awkward bool
	// EnsureFlavour: the next Patch is written for a caller that sets EnsurePathExistsOnAdd
	// (adds beyond the end of arrays and below missing parents, then operations on what that created).
	EnsureFlavour bool
	// NoHuge suppresses the rare depth-2000+ documents (concurrent engine: each
	// scenario is executed many times, also under the race detector).
	NoHuge bool
}

func New(r *R) *G { return &G{R: r, MaxDepth: 4} }

func (g *G) ws() string {
	if !g.R.P(60) {
		return ""
	}
	return g.R.Pick([]string{" ", "\n", "\t", "\r\n", "  ", " \n "})
}

// Scalar returns a scalar JSON text.
func (g *G) Scalar() string {
	switch g.R.Intn(10) {
	case 0, 1:
		return "null"
	case 2:
		return "true"
	case 3:
		return "false"
	case 4, 5, 6:
		n := g.R.Pick(numberLits)
		if (n == "1e400" || n == "12345678901234567890123") && !g.R.P(150) {
			// literals outside float64/int64 switch off the standard-library comparison of a
			// whole text (C17): keep them, but rare
			n = g.R.Pick(numberLits[:7])
		}
		return n
	default:
		if g.R.P(30) {
			// invalid UTF-8 inside a string (still well-formed JSON for Go's scanner)
			if g.R.Bool() {
				return "\"x\xffy\""
			}
			// a run of malformed sequences, possibly at the very end of the string
			bad := g.R.Pick([]string{"\xff", "\x80", "\xc0\xaf", "\xed\xa0\x80"})
			return "\"" + g.R.Pick([]string{"", "ab", "x"}) + strings.Repeat(bad, 1+g.R.Intn(30)) + g.R.Pick([]string{"", "", "z"}) + "\""
		}
		if g.R.P(20) {
			return strconv.Quote(strings.Repeat(g.R.Pick([]string{"ab", "<>", "é", "\\"}), 1+g.R.Intn(200)))
		}
		return g.R.Pick(stringLits)
	}
}

func quoteName(k string) string {
	var sb strings.Builder
	sb.WriteByte('"')
	for _, r := range k {
		switch {
		case r == '"':
			sb.WriteString(`\"`)
		case r == '\\':
			sb.WriteString(`\\`)
		case r < 0x20:
			fmt.Fprintf(&sb, `\u%04x`, r)
		default:
			sb.WriteRune(r)
		}
	}
	sb.WriteByte('"')
	return sb.String()
}

// Name returns a quoted member name.
func (g *G) Name() string {
	if g.R.P(700) && !g.Awkward {
		return quoteName(memberNames[g.R.Intn(7)])
	}
	n := g.R.Pick(memberNames)
	if g.R.P(50) {
		// spell with an escape
		if n == "a" {
			return `"\u0061"`
		}
	}
	return quoteName(n)
}

// Value returns a JSON text of nesting <= depth.
func (g *G) Value(depth int) string {
	if depth <= 0 || g.R.P(350) {
		return g.Scalar()
	}
	if g.R.Bool() {
		return g.Array(depth)
	}
	return g.Object(depth)
}

func (g *G) Array(depth int) string {
	n := g.R.Intn(5)
	if g.R.P(150) {
		n = 5 + g.R.Intn(8)
	}
	if g.R.P(30) {
		n = 5 + g.R.Intn(40)
	}
	var sb strings.Builder
	sb.WriteString("[" + g.ws())
	for i := 0; i < n; i++ {
		if i > 0 {
			sb.WriteString("," + g.ws())
		}
		if g.Awkward && g.R.P(300) {
			sb.WriteString("null")
		} else {
			sb.WriteString(g.Value(depth - 1))
		}
	}
	sb.WriteString(g.ws() + "]")
	return sb.String()
}

func (g *G) Object(depth int) string {
	n := g.R.Intn(5)
	if g.R.P(200) {
		n = 5 + g.R.Intn(8)
	}
	if g.R.P(40) {
		n = 12 + g.R.Intn(20)
	}
	var sb strings.Builder
	sb.WriteString("{" + g.ws())
	seen := map[string]bool{}
	first := true
	for i := 0; i < n; i++ {
		k := g.Name()
		if seen[k] && !g.R.P(20) { // duplicate member names are rare
			continue
		}
		seen[k] = true
		if !first {
			sb.WriteString("," + g.ws())
		}
		first = false
		sb.WriteString(k + g.ws() + ":" + g.ws())
		if g.Awkward && g.R.P(250) {
			sb.WriteString("null")
		} else {
			sb.WriteString(g.Value(depth - 1))
		}
		if g.R.P(40) && len(k) > 2 {
			// a sibling whose name extends this one (sort orders that compare prefixes only)
			sib := k[:len(k)-1] + g.R.Pick([]string{"s", "0", "_", "a"}) + `"`
			if !seen[sib] {
				seen[sib] = true
				sb.WriteString("," + sib + ":" + g.Scalar())
			}
		}
	}
	sb.WriteString(g.ws() + "}")
	return sb.String()
}

// Deep returns a value nested n levels.
func (g *G) Deep(n int) string {
	open, close := "[", "]"
	if g.R.Bool() {
		open, close = `{"a":`, "}"
	}
	return strings.Repeat(open, n) + g.Scalar() + strings.Repeat(close, n)
}

// Doc returns a document: mostly object or array rooted.
func (g *G) Doc() string {
	d := g.MaxDepth
	switch {
	case g.R.P(40):
		return g.ws() + g.Scalar() + g.ws()
	case g.R.P(8):
		return g.Deep(50 + g.R.Intn(400))
	case g.R.P(2) && !g.NoHuge:
		return g.Deep(1000 + g.R.Intn(1500))
	case g.R.P(550):
		if g.R.P(100) {
			// leading/trailing whitespace of every kind around the root
			return g.R.Pick([]string{"\r", "\r\n", "\n", "\t", " ", "\r\n\t "}) + g.Object(d) + g.R.Pick([]string{"", "\r\n", " "})
		}
		return g.ws() + g.Object(d) + g.ws()
	default:
		s := g.Array(d)
		if g.R.P(100) {
			return g.ws() + s
		}
		return s
	}
}

// ---------------------------------------------------------------------------
// RFC 6902 patches

// model evaluation on jr trees, used only to keep generated paths resolvable
func clone(v *jr.Value) *jr.Value {
	c := *v
	c.Arr = nil
	c.Keys = nil
	c.Vals = nil
	for _, e := range v.Arr {
		c.Arr = append(c.Arr, clone(e))
	}
	if v.K == jr.Arr && c.Arr == nil {
		c.Arr = []*jr.Value{}
	}
	for i, k := range v.Keys {
		c.Keys = append(c.Keys, k)
		c.Vals = append(c.Vals, clone(v.Vals[i]))
	}
	return &c
}

func unescapeToken(t string) string {
	return strings.ReplaceAll(strings.ReplaceAll(t, "~1", "/"), "~0", "~")
}

// resolve returns parent and last token for a pointer; nil if unreachable.
func resolve(root *jr.Value, ptr string) (parent *jr.Value, tok string, ok bool) {
	if ptr == "" || !strings.HasPrefix(ptr, "/") {
		return nil, "", false
	}
	parts := strings.Split(ptr[1:], "/")
	cur := root
	for _, p := range parts[:len(parts)-1] {
		cur = child(cur, unescapeToken(p))
		if cur == nil {
			return nil, "", false
		}
	}
	return cur, unescapeToken(parts[len(parts)-1]), true
}

func child(v *jr.Value, tok string) *jr.Value {
	switch v.K {
	case jr.Obj:
		c, _ := v.Get(tok)
		return c
	case jr.Arr:
		i, err := strconv.Atoi(tok)
		if err != nil {
			return nil
		}
		if i < 0 {
			i += len(v.Arr)
		}
		if i < 0 || i >= len(v.Arr) {
			return nil
		}
		return v.Arr[i]
	}
	return nil
}

// modelEnsure mirrors EnsurePathExistsOnAdd in the generator's model (so that later operations
// of the same patch can point into padded slots and created containers): missing parents are
// created (an array when the next token is numeric or "-"), arrays are padded with nulls.
var modelEnsure bool

func ensureParents(root *jr.Value, ptr string) {
	parts := strings.Split(ptr[1:], "/")
	cur := root
	for i, p := range parts[:len(parts)-1] {
		tok := unescapeToken(p)
		next := child(cur, tok)
		if next == nil {
			nt := unescapeToken(parts[i+1])
			nv := &jr.Value{K: jr.Obj}
			if _, err := strconv.Atoi(nt); err == nil || nt == "-" {
				nv = &jr.Value{K: jr.Arr, Arr: []*jr.Value{}}
			}
			switch cur.K {
			case jr.Obj:
				cur.Keys = append(cur.Keys, tok)
				cur.Vals = append(cur.Vals, nv)
			case jr.Arr:
				idx, err := strconv.Atoi(tok)
				if err != nil || idx < 0 || idx > len(cur.Arr)+40 {
					return
				}
				for len(cur.Arr) < idx {
					cur.Arr = append(cur.Arr, &jr.Value{K: jr.Null})
				}
				cur.Arr = append(cur.Arr, nv)
			default:
				return
			}
			next = nv
		}
		cur = next
	}
}

func modelAdd(root **jr.Value, ptr string, val *jr.Value) bool {
	if ptr == "" {
		*root = val
		return true
	}
	if modelEnsure && strings.HasPrefix(ptr, "/") && *root != nil {
		ensureParents(*root, ptr)
	}
	par, tok, ok := resolve(*root, ptr)
	if !ok {
		return false
	}
	switch par.K {
	case jr.Obj:
		for i, k := range par.Keys {
			if k == tok {
				par.Vals[i] = val
				return true
			}
		}
		par.Keys = append(par.Keys, tok)
		par.Vals = append(par.Vals, val)
		return true
	case jr.Arr:
		if tok == "-" {
			par.Arr = append(par.Arr, val)
			return true
		}
		i, err := strconv.Atoi(tok)
		if err != nil {
			return false
		}
		if i < 0 {
			i += len(par.Arr) + 1
		}
		if modelEnsure && i > len(par.Arr) && i <= len(par.Arr)+40 {
			for len(par.Arr) < i {
				par.Arr = append(par.Arr, &jr.Value{K: jr.Null})
			}
		}
		if i < 0 || i > len(par.Arr) {
			return false
		}
		par.Arr = append(par.Arr, nil)
		copy(par.Arr[i+1:], par.Arr[i:])
		par.Arr[i] = val
		return true
	}
	return false
}

func modelRemove(root **jr.Value, ptr string) (*jr.Value, bool) {
	par, tok, ok := resolve(*root, ptr)
	if !ok {
		return nil, false
	}
	switch par.K {
	case jr.Obj:
		for i, k := range par.Keys {
			if k == tok {
				v := par.Vals[i]
				par.Keys = append(par.Keys[:i], par.Keys[i+1:]...)
				par.Vals = append(par.Vals[:i], par.Vals[i+1:]...)
				return v, true
			}
		}
	case jr.Arr:
		i, err := strconv.Atoi(tok)
		if err != nil {
			return nil, false
		}
		if i < 0 {
			i += len(par.Arr)
		}
		if i < 0 || i >= len(par.Arr) {
			return nil, false
		}
		v := par.Arr[i]
		par.Arr = append(par.Arr[:i], par.Arr[i+1:]...)
		return v, true
	}
	return nil, false
}

func modelGet(root *jr.Value, ptr string) *jr.Value {
	if ptr == "" {
		return root
	}
	par, tok, ok := resolve(root, ptr)
	if !ok {
		return nil
	}
	return child(par, tok)
}

// Render writes a jr tree back as compact JSON text.
func Render(v *jr.Value) string {
	var sb strings.Builder
	var w func(v *jr.Value)
	w = func(v *jr.Value) {
		switch v.K {
		case jr.Null:
			sb.WriteString("null")
		case jr.Bool:
			if v.B {
				sb.WriteString("true")
			} else {
				sb.WriteString("false")
			}
		case jr.Num:
			sb.WriteString(v.Num)
		case jr.Str:
			sb.WriteString(quoteName(v.Str))
		case jr.Arr:
			sb.WriteByte('[')
			for i, e := range v.Arr {
				if i > 0 {
					sb.WriteByte(',')
				}
				w(e)
			}
			sb.WriteByte(']')
		case jr.Obj:
			sb.WriteByte('{')
			for i, k := range v.Keys {
				if i > 0 {
					sb.WriteByte(',')
				}
				sb.WriteString(quoteName(k))
				sb.WriteByte(':')
				w(v.Vals[i])
			}
			sb.WriteByte('}')
		}
	}
	w(v)
	return sb.String()
}

// pointerFor picks a pointer: resolvable in cur, or a near-miss.
func (g *G) pointerFor(cur *jr.Value, forAdd bool) string {
	ptrs := jr.Pointers(cur)
	if len(ptrs) > 400 {
		ptrs = ptrs[:400]
	}
	base := ptrs[g.R.Intn(len(ptrs))]
	exact := 650
	if modelEnsure && forAdd {
		exact = 250
	}
	if g.R.P(exact) && base != "" {
		return base
	}
	// near misses built from a container pointer
	node := modelGet(cur, base)
	if node == nil {
		return base
	}
	switch node.K {
	case jr.Arr:
		n := len(node.Arr)
		opts := []string{"-", strconv.Itoa(n), strconv.Itoa(n + 1), "-1", strconv.Itoa(-n), strconv.Itoa(-n - 1), "0", "x", "01", "+1", strconv.Itoa(n + 7)}
		return base + "/" + g.R.Pick(opts)
	case jr.Obj:
		names := append([]string{"zz", "new", "", "a~1b", "m~0n", "~", "0", "-"}, memberNames[:6]...)
		p := base + "/" + jr.EscapeToken(g.R.Pick(names))
		if forAdd && g.R.P(map[bool]int{false: 200, true: 600}[modelEnsure]) {
			p += "/" + g.R.Pick([]string{"x", "0", "-", "y/z", "2/q"})
		}
		return p
	default:
		if g.R.P(300) {
			return ""
		}
		return base + "/" + g.R.Pick([]string{"a", "0", "-"})
	}
}

// Op is one generated operation (kept structured so that variants can be rendered).
type Op struct {
	Kind, Path, From, Value string
	HasValue, HasFrom       bool
	Raw                     string // if set, rendered verbatim (structurally invalid operations)
}

func (o Op) Render(g *G) string {
	if o.Raw != "" {
		return o.Raw
	}
	parts := []string{`"op":` + strconv.Quote(o.Kind), `"path":` + quoteName(o.Path)}
	if o.HasFrom {
		parts = append(parts, `"from":`+quoteName(o.From))
	}
	if o.HasValue {
		parts = append(parts, `"value":`+o.Value)
	}
	if g != nil && g.R.P(150) { // member order varies
		for i := len(parts) - 1; i > 0; i-- {
			j := g.R.Intn(i + 1)
			parts[i], parts[j] = parts[j], parts[i]
		}
	}
	return "{" + strings.Join(parts, ",") + "}"
}

var invalidOps = []string{
	`{}`, `{"op":"add"}`, `{"op":"add","path":"/a"}`, `{"op":"replace","path":""}`, `{"op":"move","path":"/a"}`, `{"op":"copy","path":"/a","from":null}`,
	`{"op":"nope","path":"/a"}`, `{"op":1,"path":"/a"}`, `{"op":"add","path":1,"value":1}`, `{"op":"remove"}`, `{"op":"test","path":"/a"}`,
	`{"op":"remove","path":null}`, `null`, `1`, `[]`, `"add"`, `{"OP":"add","path":"/a","value":1}`, `{"op":"move","from":"/a","path":null}`,
	`{"op":"test","path":"","value":null}`, `{"op":"add","path":"/a","value":1,"value":2}`, `{"op":null,"path":"/a"}`,
}

// Patch returns an RFC 6902 patch text aimed at doc.  nops bounds the length.
func (g *G) Patch(doc string, nops int) string {
	cur, err := jr.Parse([]byte(doc))
	if err != nil {
		cur = &jr.Value{K: jr.Obj}
	}
	cur = clone(cur)
	n := g.R.Intn(nops + 1)
	modelEnsure = g.EnsureFlavour || g.R.P(150) // this patch is written for a caller that sets EnsurePathExistsOnAdd
	defer func() { modelEnsure = false }()
	var ops []string
	for i := 0; i < n; i++ {
		if g.R.P(25) {
			ops = append(ops, g.R.Pick(invalidOps))
			continue
		}
		var op Op
		switch g.R.Intn(12) {
		case 0, 1, 2:
			op = Op{Kind: "add", Path: g.pointerFor(cur, true), Value: g.opValue(), HasValue: true}
			if v, err := jr.Parse([]byte(op.Value)); err == nil {
				before := len(jr.Pointers(cur))
				modelAdd(&cur, op.Path, v)
				if modelEnsure && g.R.P(400) {
					// an operation on something the padding created (the newest null, if any)
					ptrs := jr.Pointers(cur)
					if len(ptrs) > before+1 {
						for k := len(ptrs) - 1; k >= 0; k-- {
							if n := modelGet(cur, ptrs[k]); n != nil && n.K == jr.Null {
								ops = append(ops, op.Render(g))
								op = Op{Kind: "test", Path: ptrs[k], HasValue: true, Value: g.R.Pick([]string{`{"id":1}`, `[1]`, `null`, `{}`, `[]`, `0`, `[null]`})}
								if g.R.P(300) {
									op = Op{Kind: "copy", From: ptrs[k], Path: op.Path + "x", HasFrom: true}
								}
								break
							}
						}
					}
				}
			}
		case 3, 4:
			op = Op{Kind: "remove", Path: g.pointerFor(cur, false)}
			if op.Path != "" {
				modelRemove(&cur, op.Path)
			}
		case 5, 6:
			op = Op{Kind: "replace", Path: g.pointerFor(cur, false), Value: g.opValue(), HasValue: true}
			if v, err := jr.Parse([]byte(op.Value)); err == nil {
				if op.Path == "" {
					cur = v
				} else if modelGet(cur, op.Path) != nil {
					if _, ok := modelRemove(&cur, op.Path); ok {
						modelAdd(&cur, op.Path, v)
					}
				}
			}
		case 7:
			op = Op{Kind: "move", From: g.pointerFor(cur, false), Path: g.pointerFor(cur, true), HasFrom: true}
			if op.From != "" && !strings.HasPrefix(op.Path, op.From+"/") {
				if v, ok := modelRemove(&cur, op.From); ok {
					modelAdd(&cur, op.Path, v)
				}
			}
		case 8, 9:
			op = Op{Kind: "copy", From: g.pointerFor(cur, false), Path: g.pointerFor(cur, true), HasFrom: true}
			if v := modelGet(cur, op.From); v != nil {
				modelAdd(&cur, op.Path, clone(v))
			}
		default:
			op = Op{Kind: "test", Path: g.pointerFor(cur, false), HasValue: true}
			if v := modelGet(cur, op.Path); v != nil && g.R.P(700) {
				op.Value = Render(v)
			} else {
				op.Value = g.opValue()
			}
		}
		if cur == nil || (cur.K != jr.Obj && cur.K != jr.Arr) {
			// root replaced by a scalar/null: keep generating against an empty object
			if cur == nil {
				cur = &jr.Value{K: jr.Obj}
			}
		}
		ops = append(ops, op.Render(g))
	}
	return "[" + g.ws() + strings.Join(ops, ","+g.ws()) + g.ws() + "]"
}

func (g *G) opValue() string {
	if g.R.P(150) {
		return "null"
	}
	if g.R.P(80) {
		return g.R.Pick([]string{"[null]", `{"a":null}`, "[]", "{}", `[null,null]`, `{"":null}`, `[[null]]`})
	}
	return g.Value(2)
}

// MergePatchFor derives an RFC 7396 merge patch from a document by deleting,
// nulling, retyping, nesting and adding members.
func (g *G) MergePatchFor(doc string) string {
	if g.R.P(120) {
		return g.Value(2) // arbitrary, often non-object
	}
	v, err := jr.Parse([]byte(doc))
	if err != nil || v.K != jr.Obj {
		return g.Object(3)
	}
	var mut func(v *jr.Value, depth int) *jr.Value
	mut = func(v *jr.Value, depth int) *jr.Value {
		out := &jr.Value{K: jr.Obj}
		for i, k := range v.Keys {
			switch g.R.Intn(6) {
			case 0: // delete
				out.Keys = append(out.Keys, k)
				out.Vals = append(out.Vals, &jr.Value{K: jr.Null})
			case 1: // replace by generated
				nv, err := jr.Parse([]byte(g.Value(2)))
				if err == nil {
					out.Keys = append(out.Keys, k)
					out.Vals = append(out.Vals, nv)
				}
			case 2: // recurse
				if v.Vals[i].K == jr.Obj && depth > 0 {
					out.Keys = append(out.Keys, k)
					out.Vals = append(out.Vals, mut(v.Vals[i], depth-1))
				}
			default: // untouched
			}
		}
		for j := g.R.Intn(3); j > 0; j-- {
			nv, err := jr.Parse([]byte(g.Value(2)))
			if err == nil {
				name, _ := strconv.Unquote(g.Name())
				out.Keys = append(out.Keys, name)
				out.Vals = append(out.Vals, nv)
			}
		}
		return out
	}
	return Render(mut(v, 3))
}

// Variant returns a document derived from doc (for CreateMergePatch / Equal pairs).
func (g *G) Variant(doc string) string {
	v, err := jr.Parse([]byte(doc))
	if err != nil {
		return g.Doc()
	}
	v = clone(v)
	// heavy: most members differ (many differences at one level, nested ones among them)
	dice := 8
	if g.R.P(300) {
		dice = 3
	}
	var mut func(v *jr.Value, depth int)
	mut = func(v *jr.Value, depth int) {
		switch v.K {
		case jr.Obj:
			for i := 0; i < len(v.Keys); i++ {
				switch g.R.Intn(dice) {
				case 0:
					v.Keys = append(v.Keys[:i], v.Keys[i+1:]...)
					v.Vals = append(v.Vals[:i], v.Vals[i+1:]...)
					i--
				case 1:
					if nv, err := jr.Parse([]byte(g.Value(2))); err == nil {
						v.Vals[i] = nv
					}
				case 2:
					if depth > 0 {
						mut(v.Vals[i], depth-1)
					}
				}
			}
			if g.R.P(300) {
				if nv, err := jr.Parse([]byte(g.Value(2))); err == nil {
					name, _ := strconv.Unquote(g.Name())
					if _, dup := v.Get(name); !dup {
						v.Keys = append(v.Keys, name)
						v.Vals = append(v.Vals, nv)
					}
				}
			}
			if g.R.P(200) && len(v.Keys) > 1 { // reorder members
				i, j := g.R.Intn(len(v.Keys)), g.R.Intn(len(v.Keys))
				v.Keys[i], v.Keys[j] = v.Keys[j], v.Keys[i]
				v.Vals[i], v.Vals[j] = v.Vals[j], v.Vals[i]
			}
		case jr.Arr:
			for i := range v.Arr {
				if g.R.P(150) && depth > 0 {
					mut(v.Arr[i], depth-1)
				}
			}
			if g.R.P(100) && len(v.Arr) > 0 {
				v.Arr = v.Arr[:len(v.Arr)-1]
			}
		}
	}
	if !g.R.P(150) { // sometimes identical
		mut(v, 3)
	}
	return Render(v)
}

// ---------------------------------------------------------------------------
// Corrupted-storage faults (S10)

// Fault kinds.
const (
	FaultNone = iota
	FaultTorn
	FaultFlip
	FaultDropChunk
	FaultDupChunk
	FaultSwapChunks
	FaultZeroRange
	FaultSplice
	NumFaults
)

var FaultNames = []string{"none", "torn", "flip-byte", "drop-chunk", "dup-chunk", "swap-chunks", "zero-range", "splice"}

var flipBytes = []byte("{}[],:\"\\0-n\x00\xff e")

// Corrupt applies one fault kind to text; other is spliced in for FaultSplice.
func (g *G) Corrupt(kind int, text, other string) string {
	b := []byte(text)
	n := len(b)
	if n == 0 {
		return text
	}
	switch kind {
	case FaultTorn:
		return string(b[:g.R.Intn(n)])
	case FaultFlip:
		i := g.R.Intn(n)
		b[i] = flipBytes[g.R.Intn(len(flipBytes))]
		return string(b)
	case FaultDropChunk:
		i := g.R.Intn(n)
		l := 1 + g.R.Intn(min(8, n-i))
		return string(append(b[:i:i], b[i+l:]...))
	case FaultDupChunk:
		i := g.R.Intn(n)
		l := 1 + g.R.Intn(min(8, n-i))
		out := append([]byte{}, b[:i+l]...)
		out = append(out, b[i:i+l]...)
		return string(append(out, b[i+l:]...))
	case FaultSwapChunks:
		if n < 4 {
			return text
		}
		i := g.R.Intn(n - 2)
		j := i + 1 + g.R.Intn(n-i-1)
		b[i], b[j] = b[j], b[i]
		return string(b)
	case FaultZeroRange:
		i := g.R.Intn(n)
		l := 1 + g.R.Intn(min(16, n-i))
		for k := i; k < i+l; k++ {
			b[k] = 0
		}
		return string(b)
	case FaultSplice:
		if other == "" {
			return text
		}
		i := g.R.Intn(n)
		j := g.R.Intn(len(other))
		return string(b[:i]) + other[j:]
	}
	return text
}

func min(a, b int) int {
	if a < b {
		return a
	}
	return b
}
