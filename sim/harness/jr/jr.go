// Package jr is the harness's own ordered, literal-preserving JSON reader
// (RFC 8259 recursive descent).  It is independent of both the library's codec
// and encoding/json so that "same JSON value" is decided by neither of the
// parties being compared.
package jr

import (
	"errors"
	"fmt"
	"math/big"
	"strings"
	"unicode/utf16"
	"unicode/utf8"
)

type Kind uint8

const (
	Null Kind = iota
	Bool
	Num
	Str
	Arr
	Obj
)

// Value is a parsed JSON value; object members keep document order.
type Value struct {
	K    Kind
	B    bool
	Num  string // literal
	Str  string // decoded
	Arr  []*Value
	Keys []string
	Vals []*Value
}

type parser struct {
	b     []byte
	i     int
	depth int
}

const MaxDepth = 10000

var errSyntax = errors.New("jr: syntax error")

// Parse reads exactly one JSON text (surrounding whitespace allowed).
func Parse(b []byte) (*Value, error) {
	p := &parser{b: b}
	p.ws()
	v, err := p.value()
	if err != nil {
		return nil, err
	}
	p.ws()
	if p.i != len(p.b) {
		return nil, fmt.Errorf("%w: trailing data at %d", errSyntax, p.i)
	}
	return v, nil
}

// Valid reports whether b is one well-formed JSON text.
func Valid(b []byte) bool { _, err := Parse(b); return err == nil }

func (p *parser) ws() {
	for p.i < len(p.b) {
		switch p.b[p.i] {
		case ' ', '\t', '\n', '\r':
			p.i++
		default:
			return
		}
	}
}

func (p *parser) fail(msg string) error { return fmt.Errorf("%w: %s at %d", errSyntax, msg, p.i) }

func (p *parser) value() (*Value, error) {
	if p.i >= len(p.b) {
		return nil, p.fail("unexpected end")
	}
	switch c := p.b[p.i]; {
	case c == '{':
		return p.object()
	case c == '[':
		return p.array()
	case c == '"':
		s, err := p.str()
		if err != nil {
			return nil, err
		}
		return &Value{K: Str, Str: s}, nil
	case c == 't':
		return p.lit("true", &Value{K: Bool, B: true})
	case c == 'f':
		return p.lit("false", &Value{K: Bool})
	case c == 'n':
		return p.lit("null", &Value{K: Null})
	case c == '-' || (c >= '0' && c <= '9'):
		return p.number()
	}
	return nil, p.fail("unexpected byte")
}

func (p *parser) lit(s string, v *Value) (*Value, error) {
	if strings.HasPrefix(string(p.b[p.i:min(len(p.b), p.i+len(s))]), s) && p.i+len(s) <= len(p.b) {
		p.i += len(s)
		return v, nil
	}
	return nil, p.fail("bad literal")
}

func (p *parser) number() (*Value, error) {
	st := p.i
	if p.b[p.i] == '-' {
		p.i++
	}
	if p.i >= len(p.b) {
		return nil, p.fail("bad number")
	}
	if p.b[p.i] == '0' {
		p.i++
	} else if p.b[p.i] >= '1' && p.b[p.i] <= '9' {
		for p.i < len(p.b) && p.b[p.i] >= '0' && p.b[p.i] <= '9' {
			p.i++
		}
	} else {
		return nil, p.fail("bad number")
	}
	if p.i < len(p.b) && p.b[p.i] == '.' {
		p.i++
		n := 0
		for p.i < len(p.b) && p.b[p.i] >= '0' && p.b[p.i] <= '9' {
			p.i++
			n++
		}
		if n == 0 {
			return nil, p.fail("bad fraction")
		}
	}
	if p.i < len(p.b) && (p.b[p.i] == 'e' || p.b[p.i] == 'E') {
		p.i++
		if p.i < len(p.b) && (p.b[p.i] == '+' || p.b[p.i] == '-') {
			p.i++
		}
		n := 0
		for p.i < len(p.b) && p.b[p.i] >= '0' && p.b[p.i] <= '9' {
			p.i++
			n++
		}
		if n == 0 {
			return nil, p.fail("bad exponent")
		}
	}
	return &Value{K: Num, Num: string(p.b[st:p.i])}, nil
}

func hex4(b []byte) (rune, bool) {
	if len(b) < 4 {
		return 0, false
	}
	var r rune
	for _, c := range b[:4] {
		switch {
		case c >= '0' && c <= '9':
			r = r<<4 | rune(c-'0')
		case c >= 'a' && c <= 'f':
			r = r<<4 | rune(c-'a'+10)
		case c >= 'A' && c <= 'F':
			r = r<<4 | rune(c-'A'+10)
		default:
			return 0, false
		}
	}
	return r, true
}

func (p *parser) str() (string, error) {
	p.i++ // opening quote
	var sb strings.Builder
	for {
		if p.i >= len(p.b) {
			return "", p.fail("unterminated string")
		}
		c := p.b[p.i]
		switch {
		case c == '"':
			p.i++
			return sb.String(), nil
		case c < 0x20:
			return "", p.fail("control character in string")
		case c == '\\':
			p.i++
			if p.i >= len(p.b) {
				return "", p.fail("bad escape")
			}
			e := p.b[p.i]
			p.i++
			switch e {
			case '"', '\\', '/':
				sb.WriteByte(e)
			case 'b':
				sb.WriteByte('\b')
			case 'f':
				sb.WriteByte('\f')
			case 'n':
				sb.WriteByte('\n')
			case 'r':
				sb.WriteByte('\r')
			case 't':
				sb.WriteByte('\t')
			case 'u':
				r, ok := hex4(p.b[p.i:])
				if !ok {
					return "", p.fail("bad \\u escape")
				}
				p.i += 4
				if utf16.IsSurrogate(r) {
					if p.i+6 <= len(p.b) && p.b[p.i] == '\\' && p.b[p.i+1] == 'u' {
						if r2, ok := hex4(p.b[p.i+2:]); ok {
							if dec := utf16.DecodeRune(r, r2); dec != utf8.RuneError {
								p.i += 6
								sb.WriteRune(dec)
								break
							}
						}
					}
					r = utf8.RuneError // lone surrogate
				}
				sb.WriteRune(r)
			default:
				return "", p.fail("bad escape")
			}
		default:
			// raw byte(s); invalid UTF-8 is replaced the way Go readers do
			if c < utf8.RuneSelf {
				sb.WriteByte(c)
				p.i++
			} else {
				r, sz := utf8.DecodeRune(p.b[p.i:])
				sb.WriteRune(r)
				p.i += sz
			}
		}
	}
}

func (p *parser) array() (*Value, error) {
	p.depth++
	if p.depth > MaxDepth {
		return nil, p.fail("too deep")
	}
	defer func() { p.depth-- }()
	p.i++
	v := &Value{K: Arr, Arr: []*Value{}}
	p.ws()
	if p.i < len(p.b) && p.b[p.i] == ']' {
		p.i++
		return v, nil
	}
	for {
		p.ws()
		e, err := p.value()
		if err != nil {
			return nil, err
		}
		v.Arr = append(v.Arr, e)
		p.ws()
		if p.i >= len(p.b) {
			return nil, p.fail("unterminated array")
		}
		if p.b[p.i] == ',' {
			p.i++
			continue
		}
		if p.b[p.i] == ']' {
			p.i++
			return v, nil
		}
		return nil, p.fail("expected , or ]")
	}
}

func (p *parser) object() (*Value, error) {
	p.depth++
	if p.depth > MaxDepth {
		return nil, p.fail("too deep")
	}
	defer func() { p.depth-- }()
	p.i++
	v := &Value{K: Obj}
	p.ws()
	if p.i < len(p.b) && p.b[p.i] == '}' {
		p.i++
		return v, nil
	}
	for {
		p.ws()
		if p.i >= len(p.b) || p.b[p.i] != '"' {
			return nil, p.fail("expected member name")
		}
		k, err := p.str()
		if err != nil {
			return nil, err
		}
		p.ws()
		if p.i >= len(p.b) || p.b[p.i] != ':' {
			return nil, p.fail("expected :")
		}
		p.i++
		p.ws()
		e, err := p.value()
		if err != nil {
			return nil, err
		}
		v.Keys = append(v.Keys, k)
		v.Vals = append(v.Vals, e)
		p.ws()
		if p.i >= len(p.b) {
			return nil, p.fail("unterminated object")
		}
		if p.b[p.i] == ',' {
			p.i++
			continue
		}
		if p.b[p.i] == '}' {
			p.i++
			return v, nil
		}
		return nil, p.fail("expected , or }")
	}
}

// Get returns the (last) member named k.
func (v *Value) Get(k string) (*Value, bool) {
	for i := len(v.Keys) - 1; i >= 0; i-- {
		if v.Keys[i] == k {
			return v.Vals[i], true
		}
	}
	return nil, false
}

// Equal is JSON value equality: objects are unordered (last duplicate wins),
// arrays ordered, numbers equal when their literals are equal or denote the
// same rational (so the check is never stricter than "same value").
func Equal(a, b *Value) bool {
	if a.K != b.K {
		return false
	}
	switch a.K {
	case Null:
		return true
	case Bool:
		return a.B == b.B
	case Num:
		return a.Num == b.Num || NumEqual(a.Num, b.Num)
	case Str:
		return a.Str == b.Str
	case Arr:
		if len(a.Arr) != len(b.Arr) {
			return false
		}
		for i := range a.Arr {
			if !Equal(a.Arr[i], b.Arr[i]) {
				return false
			}
		}
		return true
	case Obj:
		am, bm := a.members(), b.members()
		if len(am) != len(bm) {
			return false
		}
		for k, av := range am {
			bv, ok := bm[k]
			if !ok || !Equal(av, bv) {
				return false
			}
		}
		return true
	}
	return false
}

func (v *Value) members() map[string]*Value {
	m := make(map[string]*Value, len(v.Keys))
	for i, k := range v.Keys {
		m[k] = v.Vals[i]
	}
	return m
}

// normNum turns a JSON number literal into (negative, digits, exponent) with
// digits free of leading and trailing zeros; zero is ("", 0).
func normNum(s string) (neg bool, digits string, exp *big.Int) {
	if strings.HasPrefix(s, "-") {
		neg = true
		s = s[1:]
	}
	e := new(big.Int)
	if i := strings.IndexAny(s, "eE"); i >= 0 {
		e.SetString(strings.TrimPrefix(s[i+1:], "+"), 10)
		s = s[:i]
	}
	frac := ""
	if i := strings.IndexByte(s, '.'); i >= 0 {
		frac = s[i+1:]
		s = s[:i]
	}
	d := s + frac
	e.Sub(e, big.NewInt(int64(len(frac))))
	t := strings.TrimRight(d, "0")
	e.Add(e, big.NewInt(int64(len(d)-len(t))))
	t = strings.TrimLeft(t, "0")
	if t == "" {
		return false, "", new(big.Int)
	}
	return neg, t, e
}

// NumEqual reports whether two JSON number literals denote the same number.
func NumEqual(a, b string) bool {
	an, ad, ae := normNum(a)
	bn, bd, be := normNum(b)
	return an == bn && ad == bd && ae.Cmp(be) == 0
}

// Pointers lists the RFC 6901 pointers of every node, parents first.
func Pointers(v *Value) []string {
	var out []string
	var walk func(v *Value, p string)
	walk = func(v *Value, p string) {
		out = append(out, p)
		switch v.K {
		case Arr:
			for i, e := range v.Arr {
				walk(e, fmt.Sprintf("%s/%d", p, i))
			}
		case Obj:
			for i, k := range v.Keys {
				walk(v.Vals[i], p+"/"+EscapeToken(k))
			}
		}
	}
	walk(v, "")
	return out
}

// EscapeToken applies RFC 6901 escaping to a member name.
func EscapeToken(k string) string {
	return strings.ReplaceAll(strings.ReplaceAll(k, "~", "~0"), "/", "~1")
}

func min(a, b int) int {
	if a < b {
		return a
	}
	return b
}
