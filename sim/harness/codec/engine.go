package codec

import (
	"bytes"
	"encoding/json"
	sj "encoding/json"
	"fmt"
	"hash/fnv"
	"os"
	"path/filepath"
	"reflect"
	"regexp"
	"strconv"
	"strings"
	"time"

	fj "github.com/evanphx/json-patch/v5/internal/json"
	"github.com/evanphx/json-patch/v5/zzverif/jr"
	"github.com/evanphx/json-patch/v5/zzverif/sim"
	"verif.local/simrt"
)

func init() {
	sim.OtherEngines["codec"] = RunWorker
	sim.OtherReplays["codec"] = ReplayFile
	sim.OtherDumps["codec"] = func(verifSeed uint64, prop string, n int64, binDir string) string {
		var sb strings.Builder
		if only := os.Getenv("VERIF_DUMP_ONLY"); only != "" {
			// debugging aid: one run index, alone and again after its 300 predecessors in a 16-worker split
			idx, _ := strconv.ParseInt(only, 10, 64)
			s := Gen(sim.RunSeed(verifSeed, prop, idx))
			r := Run(s)
			b, _ := json.MarshalIndent(s, "", " ")
			fmt.Fprintf(&sb, "alone %016x\n%s\n%s\n", r.TraceHash, b, strings.Join(r.Log, "\n"))
			for k := int64(300); k >= 1; k-- {
				if j := idx - 16*k; j >= 0 {
					Run(Gen(sim.RunSeed(verifSeed, prop, j)))
				}
			}
			r2 := Run(Gen(sim.RunSeed(verifSeed, prop, idx)))
			fmt.Fprintf(&sb, "after predecessors %016x\n%s\n", r2.TraceHash, strings.Join(r2.Log, "\n"))
			return sb.String()
		}
		for i := int64(0); i < n; i++ {
			s := Gen(sim.RunSeed(verifSeed, prop, i))
			r := Run(s)
			fmt.Fprintf(&sb, "%d %s %016x v=%d calls=%d\n", i, s.Kind, r.TraceHash, len(r.Violations), r.Calls)
		}
		return sb.String()
	}
}

// Result of one codec scenario.
type Result struct {
	Violations []sim.Violation
	TraceHash  uint64
	Stats      simrt.Stats
	Fired      map[string]int64
	Probes     map[string]int64
	Reads      int64
	Writes     int64
	Values     int64 // values decoded or encoded
	Calls      int
	Log        []string
}

func (r *Result) viol(class, sig, detail string, id int) {
	r.Violations = append(r.Violations, sim.Violation{Class: class, Sig: sig, Detail: detail, CallID: uint32(id)})
}

func world(cfg sim.Cfg) *simrt.World {
	w := simrt.NewWorld(simrt.Config{PoolPolicy: cfg.Pool, EvictPermille: cfg.Evict, MapPolicy: cfg.MapOrder, Sched: simrt.SchedNone, IntrudePermille: cfg.Intrude})
	w.Intruder = intruder
	return w
}

// intruder is what "another goroutine" does with the pools in the window between a
// Put and the caller's next instruction: one use of each pooled kind of state
// (decoder with a key list, encoder, scanner), on inputs unlike the scenario's.
func intruder() {
	saved := *flakyCtl
	*flakyCtl = FlakyCtl{}
	var m map[string]any
	fj.UnmarshalWithKeys([]byte(`{"zz-intruder":[1,"x"],"yy":{"q":null}}`), &m)
	fj.Marshal(m)
	fj.Valid([]byte(`["intruder",{"k":[0]}]`))
	var a any
	fj.Unmarshal([]byte(`[tru`), &a) // leaves a saved error / error context behind
	*flakyCtl = saved
}

func hasInject(script []ReadStep) bool {
	for _, s := range script {
		if s.Inject {
			return true
		}
	}
	return false
}

// Run executes one scenario with all its oracles.
func Run(s *Scen) *Result {
	res := &Result{Fired: map[string]int64{}, Probes: map[string]int64{}}
	switch s.Kind {
	case "dec":
		runDec(s, res)
	case "enc":
		runEnc(s, res)
	case "fn":
		runFn(s, res)
	}
	return res
}

func merge(dst, src map[string]int64) {
	for k, v := range src {
		dst[k] += v
	}
}

func runDec(s *Scen, res *Result) {
	w := world(s.Cfg)
	simrt.Install(w)
	fj.SimReset()
	fork := runDecFork(s, s.Script, w)
	std := runDecStd(s, s.Script)
	var whole *decRun
	injected := fork.Fired["read_error_injected"] > 0 || fork.Fired["read_error_with_data"] > 0
	if !injected && len(s.Script) > 0 {
		whole = runDecFork(s, nil, w)
	}
	simrt.Uninstall()
	merge(res.Fired, fork.Fired)
	res.Reads = int64(fork.Reads)
	res.Calls = len(fork.Steps)
	for i := range fork.Steps {
		f, d := fork.Steps[i], std.Steps[i]
		w.UserEvent(uint32(i), hash32(f.Val+"|"+f.Err))
		if f.Op == "Decode" && f.Err == "" {
			res.Values++
		}
		switch {
		case f.Err != d.Err:
			res.viol("stdlib-diff", "codec|dec|"+f.Op+"|error", fmt.Sprintf("step %d %s: fork error %q, encoding/json error %q (payload %q)", i, f.Op, f.Err, d.Err, trunc(s.Payload)), i)
		case f.Val != d.Val:
			res.viol("stdlib-diff", "codec|dec|"+f.Op+"|value", fmt.Sprintf("step %d %s: fork %s, encoding/json %s (payload %q)", i, f.Op, trunc([]byte(f.Val)), trunc([]byte(d.Val)), trunc(s.Payload)), i)
		case f.Off != d.Off:
			res.viol("stdlib-diff", "codec|dec|"+f.Op+"|offset", fmt.Sprintf("step %d %s: InputOffset fork %d, encoding/json %d (payload %q)", i, f.Op, f.Off, d.Off, trunc(s.Payload)), i)
		}
		if whole != nil && f.Op != "Buffered" {
			wh := whole.Steps[i]
			if wh.Val != f.Val || wh.Err != f.Err || wh.Off != f.Off {
				res.viol("chunking", "codec|dec|"+f.Op+"|chunking", fmt.Sprintf("step %d %s: scripted reads gave (%s, %q, off %d), one whole-buffer read gave (%s, %q, off %d)", i, f.Op, trunc([]byte(f.Val)), f.Err, f.Off, trunc([]byte(wh.Val)), wh.Err, wh.Off), i)
			}
		}
	}
	if fork.Reads != std.Reads {
		res.viol("stdlib-diff", "codec|dec|reads", fmt.Sprintf("the fork issued %d Read calls, encoding/json %d under the same script (liveness / refill behaviour)", fork.Reads, std.Reads), 0)
	}
	res.Stats = w.Stats
	res.TraceHash = w.TraceHash()
	for _, st := range fork.Steps {
		res.Log = append(res.Log, fmt.Sprintf("%s -> %s err=%q off=%d", st.Op, trunc([]byte(st.Val)), st.Err, st.Off))
	}
}

func hash32(s string) uint32 {
	h := fnv.New32a()
	h.Write([]byte(s))
	return h.Sum32()
}

func trunc(b []byte) string {
	if len(b) > 200 {
		return string(b[:200]) + "…"
	}
	return string(b)
}

func runEnc(s *Scen, res *Result) {
	w := world(s.Cfg)
	simrt.Install(w)
	fj.SimReset()
	fw := &simWriter{script: s.WScript, fired: map[string]int64{}}
	sw := &simWriter{script: s.WScript, fired: map[string]int64{}}
	fenc := fj.NewEncoder(fw)
	senc := sj.NewEncoder(sw)
	// U+0008/U+000C are spelled \u0008/\u000c by the fork and \b/\f by newer releases:
	// the outputs then differ in length, so a short write cuts them at different
	// points and no byte/error/write-count comparison is meaningful
	bfSkip := false
	for _, st := range s.WScript {
		if !st.Fail && st.Accept >= 0 {
			for _, c := range s.EncCalls {
				if bfRe.Match(c.Text) || bytes.ContainsAny(c.Text, "\b\f") {
					bfSkip = true
				}
			}
		}
	}
	for i, c := range s.EncCalls {
		stdV, forkV, ok := buildValue(c.Text, c.Target, c.TypeSeed)
		if !ok {
			continue
		}
		switch c.Escape {
		case 1:
			fenc.SetEscapeHTML(true)
			senc.SetEscapeHTML(true)
		case 2:
			fenc.SetEscapeHTML(false)
			senc.SetEscapeHTML(false)
		}
		if c.SetIndent {
			fenc.SetIndent(c.Prefix, c.Indent)
			senc.SetIndent(c.Prefix, c.Indent)
		}
		var fr, sr stepResult
		*flakyCtl = FlakyCtl{FailAt: c.FailAt}
		w.BeginCall(uint32(i+1), 100, simrt.NewSource(simrt.Mix(s.Seed, uint64(i))), 50_000_000)
		guard(&fr, func() { fr.Err = errRender(fenc.Encode(forkV)) })
		w.EndCall(fr.Err != "", 0)
		*flakyCtl = FlakyCtl{FailAt: c.FailAt}
		guard(&sr, func() { sr.Err = errRender(senc.Encode(stdV)) })
		res.Calls++
		if fr.Err == "" {
			res.Values++
		}
		w.UserEvent(uint32(i), hash32(fr.Err)^hash32(fw.buf.String()))
		if fr.Err != sr.Err && !bfSkip {
			res.viol("stdlib-diff", "codec|enc|error", fmt.Sprintf("Encode #%d of %q (as %s): fork error %q, encoding/json error %q", i, trunc(c.Text), targetNames[c.Target], fr.Err, sr.Err), i)
		}
		res.Log = append(res.Log, fmt.Sprintf("Encode(%s as %s) err=%q", trunc(c.Text), targetNames[c.Target], fr.Err))
	}
	simrt.Uninstall()
	merge(res.Fired, fw.fired)
	res.Writes = int64(fw.writes)
	if bfSkip {
		res.Fired["bf_spelling_comparison_skipped"]++
		res.Stats = w.Stats
		res.TraceHash = w.TraceHash()
		return
	}
	if !bytes.Equal(normEsc(fw.buf.Bytes()), normEsc(sw.buf.Bytes())) {
		res.viol("stdlib-diff", "codec|enc|bytes", fmt.Sprintf("bytes that reached the writer differ: fork %q, encoding/json %q", trunc(fw.buf.Bytes()), trunc(sw.buf.Bytes())), 0)
	}
	if fw.writes != sw.writes {
		res.viol("stdlib-diff", "codec|enc|writes", fmt.Sprintf("the fork issued %d Write calls, encoding/json %d", fw.writes, sw.writes), 0)
	}
	res.Stats = w.Stats
	res.TraceHash = w.TraceHash()
}

// fnOut is everything observable about one function-API call.
type fnOut struct {
	Skipped bool
	Out     string
	Val     string
	ValNaf  string
	Err     string
	Keys    []string
	KeysCmp string // the key list when it is in the property's domain (object decoded into a map-typed target), else ""
	Bool    bool
	val     any
	ret     []byte // the slice the codec returned (kept by the simulated caller)
}

func (o *fnOut) key() string {
	return fmt.Sprintf("%v|%s|%s|%s|%v|%s", o.Skipped, o.Out, o.Val, o.Err, o.Bool, o.KeysCmp)
}

func isMapTarget(t int) bool {
	return t == TMapAny || t == TMapInt || t == TFlakyMap || t == TMapStruct || t == TTextMap
}

func callFork(c *FnCall) (o fnOut) {
	var sr stepResult
	guard(&sr, func() {
		*flakyCtl = FlakyCtl{FailAt: c.FailAt, Panic: c.Panic}
		switch c.Fn {
		case FUnmarshal, FUnmarshalWithKeys, FUnmarshalValid, FUnmarshalValidWithKeys:
			if (c.Fn == FUnmarshalValid || c.Fn == FUnmarshalValidWithKeys) && !(jr.Valid(c.Text) && sj.Valid(c.Text)) {
				o.Skipped = true // precondition of UnmarshalValid*: the text was validated
				return
			}
			t := PrefilledTarget(c.Target, c.TypeSeed, c.Prefill)
			var err error
			// the caller's buffer: reused for something else as soon as the call has returned
			in := append(make([]byte, 0, len(c.Text)), c.Text...)
			switch c.Fn {
			case FUnmarshal:
				err = fj.Unmarshal(in, t)
			case FUnmarshalWithKeys:
				o.Keys, err = fj.UnmarshalWithKeys(in, t)
			case FUnmarshalValid:
				err = fj.UnmarshalValid(in, t)
			case FUnmarshalValidWithKeys:
				o.Keys, err = fj.UnmarshalValidWithKeys(in, t)
			}
			for i := range in {
				in[i] = '7'
			}
			o.Keys = append([]string(nil), o.Keys...)
			if (c.Fn == FUnmarshalWithKeys || c.Fn == FUnmarshalValidWithKeys) && err == nil && isMapTarget(c.Target) && len(c.Prefill) == 0 {
				if root, perr := jr.Parse(c.Text); perr == nil && root.K == jr.Obj {
					o.KeysCmp = fmt.Sprintf("%q", o.Keys)
				}
			}
			o.val = reflect.ValueOf(t).Elem().Interface()
			o.Val, o.ValNaf, o.Err = Render(t, false), Render(t, true), errRender(err)
		case FMarshal, FMarshalEscaped, FMarshalIndent:
			_, forkV, ok := buildValue(c.Text, c.Target, c.TypeSeed)
			if !ok {
				o.Skipped = true
				return
			}
			*flakyCtl = FlakyCtl{FailAt: c.FailAt, Panic: c.Panic}
			var b []byte
			var err error
			switch c.Fn {
			case FMarshal:
				b, err = fj.Marshal(forkV)
			case FMarshalEscaped:
				b, err = fj.MarshalEscaped(forkV, c.Escape)
			case FMarshalIndent:
				b, err = fj.MarshalIndent(forkV, c.Prefix, c.Indent)
			}
			if err != nil && c.Again && repairValue(forkV) {
				// the same object again, after the caller repaired what made it unencodable
				first := errRender(err)
				b, err = fj.Marshal(forkV)
				o.Val = "first attempt: " + first
			}
			o.Out, o.Err = string(b), errRender(err)
			o.ret = b
		case FDecoderDecode:
			t := PrefilledTarget(c.Target, c.TypeSeed, c.Prefill)
			dec := fj.NewDecoder(bytes.NewReader(c.Text))
			if c.UseNumber {
				dec.UseNumber()
			}
			if c.Disallow {
				dec.DisallowUnknownFields()
			}
			err := dec.Decode(t)
			o.Val, o.ValNaf, o.Err = Render(t, false), Render(t, false), errRender(err)
			o.Out = fmt.Sprint(dec.InputOffset())
		case FEncoderEncode:
			_, forkV, ok := buildValue(c.Text, c.Target, c.TypeSeed)
			if !ok || c.Target == TTrust {
				o.Skipped = true
				return
			}
			*flakyCtl = FlakyCtl{FailAt: c.FailAt, Panic: c.Panic}
			var buf bytes.Buffer
			enc := fj.NewEncoder(&buf)
			enc.SetEscapeHTML(c.Escape)
			if c.Indent != "" || c.Prefix != "" {
				enc.SetIndent(c.Prefix, c.Indent)
			}
			err := enc.Encode(forkV)
			o.Out, o.Err = buf.String(), errRender(err)
		case FValid:
			o.Bool = fj.Valid(c.Text)
		case FCompact:
			var buf bytes.Buffer
			err := fj.Compact(&buf, c.Text)
			o.Out, o.Err = buf.String(), errRender(err)
		case FIndent:
			var buf bytes.Buffer
			err := fj.Indent(&buf, c.Text, c.Prefix, c.Indent)
			o.Out, o.Err = buf.String(), errRender(err)
		case FHTMLEscape:
			var buf bytes.Buffer
			fj.HTMLEscape(&buf, c.Text)
			o.Out = buf.String()
		}
	})
	if sr.Err != "" {
		o.Err = sr.Err
	}
	return o
}

func callStd(c *FnCall) (o fnOut) {
	var sr stepResult
	guard(&sr, func() {
		*flakyCtl = FlakyCtl{FailAt: c.FailAt, Panic: c.Panic}
		switch c.Fn {
		case FUnmarshal, FUnmarshalWithKeys, FUnmarshalValid, FUnmarshalValidWithKeys:
			t := PrefilledTarget(c.Target, c.TypeSeed, c.Prefill)
			err := sj.Unmarshal(c.Text, t)
			o.Val, o.Err = Render(t, false), errRender(err)
		case FMarshal, FMarshalEscaped, FMarshalIndent:
			stdV, _, ok := buildValue(c.Text, c.Target, c.TypeSeed)
			if !ok || ((c.Target == TRedirect || c.Target == TTrust) && c.FailAt > 0) {
				// a failing Redirect/TrustMarshaler has no standard-library counterpart for its error text
				o.Skipped = true
				return
			}
			if tm, isTrust := stdV.(trustMarker); isTrust {
				// model of the TrustMarshaler contract: its bytes reach the output verbatim
				model := trustModel(tm.shape, tm.text)
				if c.Fn == FMarshalIndent {
					var buf bytes.Buffer
					err := sj.Indent(&buf, []byte(model), c.Prefix, c.Indent)
					o.Out, o.Err = buf.String(), errRender(err)
					if err != nil {
						o.Out = ""
					}
					return
				}
				o.Out = model
				return
			}
			*flakyCtl = FlakyCtl{FailAt: c.FailAt, Panic: c.Panic}
			var b []byte
			var err error
			switch c.Fn {
			case FMarshal:
				b, err = sj.Marshal(stdV)
			case FMarshalEscaped:
				var buf bytes.Buffer
				enc := sj.NewEncoder(&buf)
				enc.SetEscapeHTML(c.Escape)
				err = enc.Encode(stdV)
				b = bytes.TrimSuffix(buf.Bytes(), []byte("\n"))
				if err != nil {
					b = nil
				}
			case FMarshalIndent:
				b, err = sj.MarshalIndent(stdV, c.Prefix, c.Indent)
			}
			if err != nil && c.Again && repairValue(stdV) {
				first := errRender(err)
				b, err = sj.Marshal(stdV)
				o.Val = "first attempt: " + first
			}
			o.Out, o.Err = string(b), errRender(err)
		case FDecoderDecode:
			t := PrefilledTarget(c.Target, c.TypeSeed, c.Prefill)
			dec := sj.NewDecoder(bytes.NewReader(c.Text))
			if c.UseNumber {
				dec.UseNumber()
			}
			if c.Disallow {
				dec.DisallowUnknownFields()
			}
			err := dec.Decode(t)
			o.Val, o.Err = Render(t, false), errRender(err)
			o.Out = fmt.Sprint(dec.InputOffset())
		case FEncoderEncode:
			stdV, _, ok := buildValue(c.Text, c.Target, c.TypeSeed)
			if !ok || c.Target == TTrust || (c.Target == TRedirect && c.FailAt > 0) {
				o.Skipped = true
				return
			}
			*flakyCtl = FlakyCtl{FailAt: c.FailAt, Panic: c.Panic}
			var buf bytes.Buffer
			enc := sj.NewEncoder(&buf)
			enc.SetEscapeHTML(c.Escape)
			if c.Indent != "" || c.Prefix != "" {
				enc.SetIndent(c.Prefix, c.Indent)
			}
			err := enc.Encode(stdV)
			o.Out, o.Err = buf.String(), errRender(err)
		case FValid:
			o.Bool = sj.Valid(c.Text)
		case FCompact:
			var buf bytes.Buffer
			err := sj.Compact(&buf, c.Text)
			o.Out, o.Err = buf.String(), errRender(err)
		case FIndent:
			var buf bytes.Buffer
			err := sj.Indent(&buf, c.Text, c.Prefix, c.Indent)
			o.Out, o.Err = buf.String(), errRender(err)
		case FHTMLEscape:
			var buf bytes.Buffer
			sj.HTMLEscape(&buf, c.Text)
			o.Out = buf.String()
		}
	})
	if sr.Err != "" {
		o.Err = sr.Err
	}
	return o
}

var pristineFn = map[string]fnOut{}

func fnKey(c *FnCall) string {
	return fmt.Sprintf("%d|%d|%d|%v|%q|%q|%d|%v|%q|%v%v%v|%s", c.Fn, c.Target, c.TypeSeed, c.Escape, c.Prefix, c.Indent, c.FailAt, c.Panic, c.Prefill, c.UseNumber, c.Disallow, c.Again, c.Text)
}

func pristineCall(c *FnCall) fnOut {
	k := fnKey(c)
	if o, ok := pristineFn[k]; ok {
		return o
	}
	if len(pristineFn) > 20000 {
		pristineFn = map[string]fnOut{}
	}
	w := simrt.NewWorld(simrt.Config{PoolPolicy: simrt.PoolFresh, MapPolicy: simrt.MapSorted})
	simrt.Install(w)
	w.BeginCall(0, uint32(c.Fn), nil, 50_000_000)
	o := callFork(c)
	w.EndCall(o.Err != "", 0)
	simrt.Uninstall()
	o.val = nil
	o.ret = nil
	pristineFn[k] = o
	return o
}

// hasUnrepresentableNumber reports whether the text holds a number literal that
// strconv.ParseFloat rejects (range error), e.g. 1e400.
func hasUnrepresentableNumber(text []byte) bool {
	v, err := jr.Parse(text)
	if err != nil {
		return false
	}
	bad := false
	var walk func(v *jr.Value)
	walk = func(v *jr.Value) {
		if v.K == jr.Num {
			if _, err := strconv.ParseFloat(v.Num, 64); err != nil {
				bad = true
			}
		}
		for _, e := range v.Arr {
			walk(e)
		}
		for _, e := range v.Vals {
			walk(e)
		}
	}
	walk(v)
	return bad
}

var bfRe = regexp.MustCompile(`(?i)\\b|\\f|\\u0008|\\u000c`)

func numberRangeErr(e string) bool {
	return strings.Contains(e, "UnmarshalTypeError") && strings.Contains(e, "Value=number")
}

func runFn(s *Scen, res *Result) {
	// pristine results first
	want := make([]fnOut, len(s.FnCalls))
	for i := range s.FnCalls {
		want[i] = pristineCall(&s.FnCalls[i])
	}
	w := world(s.Cfg)
	simrt.Install(w)
	fj.SimReset()
	if s.Cfg.Warm {
		w.BeginCall(0xfff0, 0, simrt.NewSource(7), 0)
		var v any
		fj.Unmarshal([]byte(`{"a":[1,"x",null,{"b":true}]}`), &v)
		fj.Marshal(v)
		w.EndCall(false, 0)
	}
	type kept struct {
		id   uint32
		name string
		ret  []byte
		snap string
		bad  bool
	}
	var keptResults []kept
	for i := range s.FnCalls {
		c := &s.FnCalls[i]
		name := fNames[c.Fn]
		var src *simrt.Source
		if s.Replay {
			src = simrt.ReplaySource(c.Tape, nil, s.Lenient)
		} else {
			src = simrt.NewSource(simrt.Mix(s.Seed, uint64(c.ID)))
		}
		w.BeginCall(c.ID, uint32(c.Fn), src, 50_000_000+int64(len(c.Text))*int64(len(c.Text))*40)
		got := callFork(c)
		w.EndCall(got.Err != "", hash32(got.key()))
		if s.Replay {
			if s.Lenient {
				c.Tape = src.EffTape
			}
		} else {
			c.Tape = src.Tape
		}
		res.Calls++
		// results handed out earlier must still hold what they held when returned
		for k := range keptResults {
			kr := &keptResults[k]
			if !kr.bad && string(kr.ret) != kr.snap {
				kr.bad = true
				res.viol("result-clobbered", "codec|fn|"+kr.name+"|result-clobbered", fmt.Sprintf("the slice returned by call #%d %s held %q and holds %q after call #%d %s: the result aliases pooled state", kr.id, kr.name, trunc([]byte(kr.snap)), trunc(kr.ret), c.ID, name), int(kr.id))
			}
		}
		if len(got.ret) > 0 {
			keptResults = append(keptResults, kept{id: c.ID, name: name, ret: got.ret, snap: got.Out})
		}
		if got.Skipped {
			res.Log = append(res.Log, name+" skipped")
			continue
		}
		res.Log = append(res.Log, fmt.Sprintf("%s(%s as %s) -> out=%s val=%s err=%q keys=%q", name, trunc(c.Text), targetNames[c.Target], trunc([]byte(got.Out)), trunc([]byte(got.Val)), got.Err, got.Keys))
		if got.Err == "" && c.Fn != FValid {
			res.Values++
			if c.Fn <= FMarshalIndent || c.Fn >= FDecoderDecode {
				kind := "decoded_ok_as "
				if (c.Fn >= FMarshal && c.Fn <= FMarshalIndent) || c.Fn == FEncoderEncode {
					kind = "encoded_ok_from "
				}
				res.Probes[kind+targetNames[c.Target]]++
			}
		}
		if strings.HasPrefix(got.Err, "panic:") && c.Panic {
			res.Fired["callback_panicked"]++
		} else if strings.Contains(got.Err, "flaky callback failed") {
			res.Fired["callback_failed"]++
		}
		detail := func(what string, a, b string) string {
			return fmt.Sprintf("call #%d %s(%q as %s): %s: %s vs %s", c.ID, name, trunc(c.Text), targetNames[c.Target], what, a, b)
		}
		// (a) equals the same call run alone in a pristine world
		p := want[i]
		if p.key() != got.key() {
			res.viol("history", "codec|fn|"+name+"|history", detail("in this history vs run alone", got.key(), p.key()), int(c.ID))
		}
		// (b) the standard library's result
		std := callStd(c)
		if !std.Skipped {
			switch c.Fn {
			case FDecoderDecode:
				if got.Err != std.Err {
					res.viol("stdlib-diff", "codec|fn|"+name+"|stdlib-error", detail("error, fork vs encoding/json", fmt.Sprintf("%q", got.Err), fmt.Sprintf("%q", std.Err)), int(c.ID))
				} else if got.ValNaf != std.Val {
					res.viol("stdlib-diff", "codec|fn|"+name+"|stdlib-value", detail("value, fork vs encoding/json", trunc([]byte(got.ValNaf)), trunc([]byte(std.Val))), int(c.ID))
				} else if got.Out != std.Out {
					res.viol("stdlib-diff", "codec|fn|"+name+"|stdlib-offset", detail("InputOffset, fork vs encoding/json", got.Out, std.Out), int(c.ID))
				}
			case FUnmarshal, FUnmarshalWithKeys, FUnmarshalValid, FUnmarshalValidWithKeys:
				if numberRangeErr(std.Err) || hasUnrepresentableNumber(c.Text) {
					// the fork always decodes numbers as Number (the normalisation the property
					// grants); a literal outside float64 makes encoding/json fail where the fork
					// cannot, which also shifts which saved error is reported first
					res.Fired["number_normalisation_skipped"]++
				} else {
					if got.Err != std.Err {
						res.viol("stdlib-diff", "codec|fn|"+name+"|stdlib-error", detail("error, fork vs encoding/json", fmt.Sprintf("%q", got.Err), fmt.Sprintf("%q", std.Err)), int(c.ID))
					} else if got.ValNaf != std.Val {
						res.viol("stdlib-diff", "codec|fn|"+name+"|stdlib-value", detail("value, fork vs encoding/json", trunc([]byte(got.ValNaf)), trunc([]byte(std.Val))), int(c.ID))
					}
				}
			case FValid:
				if got.Bool != std.Bool {
					res.viol("stdlib-diff", "codec|fn|Valid|stdlib", detail("fork vs encoding/json", fmt.Sprint(got.Bool), fmt.Sprint(std.Bool)), int(c.ID))
				}
			default:
				if got.Err != std.Err {
					res.viol("stdlib-diff", "codec|fn|"+name+"|stdlib-error", detail("error, fork vs encoding/json", fmt.Sprintf("%q", got.Err), fmt.Sprintf("%q", std.Err)), int(c.ID))
				} else if !bytes.Equal(normEsc([]byte(got.Out)), normEsc([]byte(std.Out))) {
					res.viol("stdlib-diff", "codec|fn|"+name+"|stdlib-bytes", detail("output, fork vs encoding/json", fmt.Sprintf("%q", trunc([]byte(got.Out))), fmt.Sprintf("%q", trunc([]byte(std.Out)))), int(c.ID))
				}
			}
		}
		// (b') contract of the fork's RedirectMarshaler where no standard-library run exists: when
		// the value it redirects to cannot be encoded, neither can the redirect - an error inside
		// must come out, not a shorter text
		if c.Target == TRedirect && c.FailAt == 2 && !c.Panic && c.TypeSeed&48 == 48 && c.Fn >= FMarshal && c.Fn <= FMarshalIndent && !got.Skipped {
			if got.Err == "" {
				res.viol("redirect", "codec|fn|"+name+"|redirect-error-swallowed", detail("a Marshaler inside the redirected value failed (scripted), yet the encoding reports success", fmt.Sprintf("%q", got.Out), "an error"), int(c.ID))
			}
			res.Probes["redirect_inner_failure_checked"]++
		}
		valid := jr.Valid(c.Text)
		// (c) round trip of dynamic values
		if valid && got.Err == "" && c.Target == TAny && c.Fn <= FUnmarshalValidWithKeys && len(c.Prefill) == 0 {
			w.BeginCall(c.ID+5000, 99, nil, 0)
			out, err := fj.Marshal(got.val)
			var back any
			var err2 error
			if err == nil {
				err2 = fj.Unmarshal(out, &back)
			}
			w.EndCall(err != nil, 0)
			if err != nil || err2 != nil {
				res.viol("roundtrip", "codec|fn|roundtrip|error", detail("re-encoding the decoded value failed", fmt.Sprint(err), fmt.Sprint(err2)), int(c.ID))
			} else {
				if eq, ok := jrEqualTexts(out, c.Text); !ok || !eq {
					res.viol("roundtrip", "codec|fn|roundtrip|value", detail("decode+encode changed the value", trunc(c.Text), trunc(out)), int(c.ID))
				} else if Render(back, false) != Render(got.val, false) {
					res.viol("roundtrip", "codec|fn|roundtrip|redecode", detail("decode(encode(decode(text))) differs", Render(back, false), Render(got.val, false)), int(c.ID))
				} else if !sameNumberLiterals(c.Text, out) {
					res.viol("roundtrip", "codec|fn|roundtrip|literal", detail("a number literal changed across decode+encode", trunc(c.Text), trunc(out)), int(c.ID))
				}
			}
			res.Fired["roundtrip_checked"]++
		}
		// (d) key list of an object decoded into a map-typed target
		if valid && got.Err == "" && (c.Fn == FUnmarshalWithKeys || c.Fn == FUnmarshalValidWithKeys) {
			root, _ := jr.Parse(c.Text)
			if root != nil && root.K == jr.Obj && isMapTarget(c.Target) {
				if fmt.Sprintf("%q", root.Keys) != fmt.Sprintf("%q", got.Keys) && !(len(root.Keys) == 0 && len(got.Keys) == 0) {
					res.viol("keys", "codec|fn|"+name+"|keys", detail("key list vs member names in document order", fmt.Sprintf("%q", got.Keys), fmt.Sprintf("%q", root.Keys)), int(c.ID))
				}
				res.Fired["keys_checked"]++
			} else if len(got.Keys) > 0 && (root == nil || root.K != jr.Obj) {
				res.Probes["stale_lastKeys_observable"]++
			}
		}
		// (e) Compact / Indent / HTMLEscape / escape switch change spelling only
		if valid && got.Err == "" {
			switch c.Fn {
			case FCompact, FIndent, FHTMLEscape:
				if c.Fn == FIndent && strings.Trim(c.Prefix+c.Indent, " \t\r\n") != "" {
					break // a non-whitespace prefix/indent is copied verbatim by design: the output is not JSON
				}
				if eq, ok := jrEqualTexts([]byte(got.Out), c.Text); !ok || !eq {
					res.viol("reread", "codec|fn|"+name+"|reread", detail("output does not re-read to the input value", trunc(c.Text), trunc([]byte(got.Out))), int(c.ID))
				}
			case FMarshalEscaped:
				w.BeginCall(c.ID+6000, 98, nil, 0)
				_, forkV, ok := buildValue(c.Text, c.Target, c.TypeSeed)
				var other []byte
				var err error
				if ok {
					*flakyCtl = FlakyCtl{}
					other, err = fj.MarshalEscaped(forkV, !c.Escape)
				}
				w.EndCall(false, 0)
				if ok && err == nil && c.FailAt == 0 {
					if eq, ok2 := jrEqualTexts([]byte(got.Out), other); (!ok2 || !eq) && sameDecoded([]byte(got.Out), other, c.Target, c.TypeSeed) {
						// a string field tagged ",string" holds the JSON *encoding* of its value, HTML escapes
						// included (encoding/json does the same): the texts differ, the decoded Go values do not
						res.Probes["escape_switch_quoted_string_field"]++
					} else if !ok2 || !eq {
						res.viol("reread", "codec|fn|MarshalEscaped|escape-switch", detail("the HTML-escape switch changed the value", trunc([]byte(got.Out)), trunc(other)), int(c.ID))
					}
				}
			}
		}
	}
	simrt.Uninstall()
	for _, v := range w.Violations() {
		res.viol(v.Class, "codec|"+v.Class, v.Detail, 0)
	}
	res.Stats = w.Stats
	res.TraceHash = w.TraceHash()
}

// sameDecoded reports whether two encodings of a typed target decode (with the
// standard library) to the same Go value.
func sameDecoded(a, b []byte, target int, typeSeed uint64) bool {
	if !isTypedTarget(target) {
		return false
	}
	ta, tb := NewTarget(target, typeSeed), NewTarget(target, typeSeed)
	*flakyCtl = FlakyCtl{}
	ea, eb := sj.Unmarshal(a, ta), sj.Unmarshal(b, tb)
	return ea == nil && eb == nil && Render(ta, false) == Render(tb, false)
}

// sameNumberLiterals reports whether two texts contain the same number literals in document order.
func sameNumberLiterals(a, b []byte) bool {
	av, err1 := jr.Parse(a)
	bv, err2 := jr.Parse(b)
	if err1 != nil || err2 != nil {
		return false
	}
	// compare as multisets keyed by path-independent order within arrays; objects may be reordered by the encoder (sorted keys)
	var collect func(v *jr.Value, out map[string]int)
	collect = func(v *jr.Value, out map[string]int) {
		switch v.K {
		case jr.Num:
			out[v.Num]++
		case jr.Arr:
			for _, e := range v.Arr {
				collect(e, out)
			}
		case jr.Obj:
			m := map[string]*jr.Value{}
			for i, k := range v.Keys {
				m[k] = v.Vals[i] // last duplicate wins, as in the decoder
			}
			for _, e := range m {
				collect(e, out)
			}
		}
	}
	am, bm := map[string]int{}, map[string]int{}
	collect(av, am)
	collect(bv, bm)
	if len(am) != len(bm) {
		return false
	}
	for k, n := range am {
		if bm[k] != n {
			return false
		}
	}
	return true
}

// ---------------------------------------------------------------------------
// worker loop, minimisation, replay

func shapeHash(s *Scen) uint64 {
	c := s.Clone()
	for i := range c.FnCalls {
		c.FnCalls[i].Tape = nil
	}
	b, _ := json.Marshal(c)
	h := fnv.New64a()
	h.Write(b)
	return h.Sum64()
}

type replayDoc struct {
	sim.ReplayFile
	Codec *Scen    `json:"codec_scenario"`
	Log   []string `json:"log,omitempty"`
}

func shrink(s *Scen, sigWanted string, deadline time.Time) (*Scen, int) {
	test := func(c *Scen) bool {
		c.Replay, c.Lenient = true, true
		r := Run(c)
		return sim.HasSig(r.Violations, sigWanted)
	}
	best := s.Clone()
	tries := 0
	try := func(c *Scen) bool {
		if time.Now().After(deadline) {
			return false
		}
		tries++
		if test(c) {
			best = c
			return true
		}
		return false
	}
	if !try(best.Clone()) {
		return s, tries
	}
	for round := 0; round < 5; round++ {
		progress := false
		for i := len(best.FnCalls) - 1; i >= 0; i-- {
			c := best.Clone()
			c.FnCalls = append(c.FnCalls[:i], c.FnCalls[i+1:]...)
			if try(c) {
				progress = true
			}
		}
		for i := len(best.DecCalls) - 1; i >= 0; i-- {
			c := best.Clone()
			c.DecCalls = append(c.DecCalls[:i], c.DecCalls[i+1:]...)
			if try(c) {
				progress = true
			}
		}
		for i := len(best.EncCalls) - 1; i >= 0; i-- {
			c := best.Clone()
			c.EncCalls = append(c.EncCalls[:i], c.EncCalls[i+1:]...)
			if try(c) {
				progress = true
			}
		}
		for i := len(best.Script) - 1; i >= 0; i-- {
			c := best.Clone()
			c.Script = append(c.Script[:i], c.Script[i+1:]...)
			if try(c) {
				progress = true
			}
		}
		for i := len(best.WScript) - 1; i >= 0; i-- {
			c := best.Clone()
			c.WScript = append(c.WScript[:i], c.WScript[i+1:]...)
			if try(c) {
				progress = true
			}
		}
		for _, f := range []func(*Scen) bool{
			func(c *Scen) bool { ch := c.Cfg.Pool != simrt.PoolLIFO; c.Cfg.Pool = simrt.PoolLIFO; return ch },
			func(c *Scen) bool { ch := c.Cfg.Pool != simrt.PoolFresh; c.Cfg.Pool = simrt.PoolFresh; return ch },
			func(c *Scen) bool { ch := c.Cfg.Evict != 0; c.Cfg.Evict = 0; return ch },
			func(c *Scen) bool { ch := c.Cfg.MapOrder != 0; c.Cfg.MapOrder = 0; return ch },
			func(c *Scen) bool { ch := c.Cfg.Warm; c.Cfg.Warm = false; return ch },
			func(c *Scen) bool { ch := c.EOFWithData; c.EOFWithData = false; return ch },
			func(c *Scen) bool { ch := c.UseNumber; c.UseNumber = false; return ch },
			func(c *Scen) bool { ch := c.Disallow; c.Disallow = false; return ch },
		} {
			c := best.Clone()
			if f(c) && try(c) {
				progress = true
			}
		}
		// payload / texts
		if len(best.Payload) > 0 {
			n := len(best.Payload)
			for sz := n / 2; sz >= 1; sz /= 2 {
				for i := 0; i+sz <= len(best.Payload); {
					c := best.Clone()
					c.Payload = append(append(sim.Bytes{}, best.Payload[:i]...), best.Payload[i+sz:]...)
					if try(c) {
						progress = true
					} else {
						i += sz
					}
					if time.Now().After(deadline) {
						break
					}
				}
			}
		}
		for i := range best.FnCalls {
			for pass := 0; pass < 6; pass++ {
				improved := false
				for _, cand := range sim.TextCandidates(best.FnCalls[i].Text) {
					c := best.Clone()
					old := string(c.FnCalls[i].Text)
					// the same text often appears in several calls: replace it everywhere
					for j := range c.FnCalls {
						if string(c.FnCalls[j].Text) == old {
							c.FnCalls[j].Text = sim.Bytes(cand)
						}
					}
					if try(c) {
						improved, progress = true, true
						break
					}
				}
				if !improved {
					break
				}
			}
		}
		for i := range best.EncCalls {
			for _, cand := range sim.TextCandidates(best.EncCalls[i].Text) {
				c := best.Clone()
				c.EncCalls[i].Text = sim.Bytes(cand)
				if try(c) {
					progress = true
					break
				}
			}
		}
		if !progress || time.Now().After(deadline) {
			break
		}
	}
	return best, tries
}

// RunWorker is the codec engine loop.
func RunWorker(p sim.Params) *sim.Summary {
	start := time.Now()
	sum := &sim.Summary{Property: p.Prop, Engine: p.Engine, Worker: p.Worker, Faults: map[string]int64{}, Probes: map[string]int64{}, OutClasses: map[string]int64{},
		PerTarget: map[string]int64{}, PerFn: map[string]int64{}, TraceHashes: map[string]string{}, Enum: map[string]int64{}}
	hf := filepath.Join(p.OutDir, fmt.Sprintf("hashes.%s.%d.bin", p.Engine, p.Worker))
	hfile, _ := os.Create(hf)
	sum.HashFile = hf
	seen := map[uint64]struct{}{}
	vios := map[string]*sim.VioRecord{}
	for i := int64(0); i < p.MaxRuns && time.Now().Before(p.Deadline); i++ {
		gi := int64(p.Worker) + i*int64(p.NWorkers)
		own := true
		if i%50 == 49 {
			gi = int64((p.Worker+1)%p.NWorkers) + (i-49)*int64(p.NWorkers)
			own = false
		}
		seed := sim.RunSeed(p.VerifSeed, p.Prop, gi)
		s := Gen(seed)
		r := Run(s)
		if i%50 == 0 || !own {
			sum.TraceHashes[fmt.Sprint(gi)] = fmt.Sprintf("%016x", r.TraceHash)
		}
		if !own {
			continue
		}
		if sum.FirstSeed == 0 {
			sum.FirstSeed = seed
		}
		sum.LastSeed = seed
		sum.Runs++
		sum.Scenarios++
		sum.Calls += int64(r.Calls)
		sum.Steps += r.Stats.Steps
		sum.SimReads += r.Reads
		sum.SimWrites += r.Writes
		sum.PerTarget[s.Kind]++
		for k, v := range r.Fired {
			sum.Faults[k] += v
		}
		if r.Stats.PoolReuse > 0 {
			sum.Faults["pool_recycled_state"] += r.Stats.PoolReuse
		}
		if r.Stats.PoolEvicted > 0 {
			sum.Faults["pool_eviction"] += r.Stats.PoolEvicted
		}
		sum.Probes["pool_reuse_after_failed_call"] += r.Stats.PoolReuseAfterFail
		if r.Stats.Intrusions > 0 {
			sum.Faults["pool_intrusion_between_put_and_return"] += r.Stats.Intrusions
		}
		sum.Probes["map_order_nontrivial"] += r.Stats.KeysNontrivial
		sum.Probes["values_decoded_or_encoded"] += r.Values
		for k, v := range r.Probes {
			sum.Probes[k] += v
		}
		for _, c := range s.FnCalls {
			sum.PerFn[fNames[c.Fn]]++
		}
		for _, c := range s.DecCalls {
			sum.PerFn["Decoder."+opNames[c.Op]]++
		}
		sum.PerFn["Encoder.Encode"] += int64(len(s.EncCalls))
		injected := r.Stats.PoolReuse > 0
		for k, v := range r.Fired {
			if v > 0 && k != "roundtrip_checked" && k != "keys_checked" {
				injected = true
			}
		}
		if injected && r.Values > 0 {
			sum.Nontrivial++
			h := shapeHash(s)
			if _, ok := seen[h]; !ok {
				if len(seen) < 4_000_000 {
					seen[h] = struct{}{}
				}
				if hfile != nil {
					var b [8]byte
					for k := 0; k < 8; k++ {
						b[k] = byte(h >> (8 * k))
					}
					hfile.Write(b[:])
				}
			}
			if len(sum.Samples) < 3 && i%11 == 4 {
				sm, _ := json.Marshal(map[string]any{"scenario": s, "log": r.Log, "faults_fired": r.Fired, "pool_reuse": r.Stats.PoolReuse})
				sum.Samples = append(sum.Samples, sm)
			}
		}
		for _, v := range r.Violations {
			rec, ok := vios[v.Sig]
			if ok {
				rec.Count++
				continue
			}
			rec = &sim.VioRecord{Sig: v.Sig, Class: v.Class, Detail: v.Detail, Count: 1, FirstSeed: seed}
			vios[v.Sig] = rec
			sum.Violations = append(sum.Violations, rec)
			min, tries := shrink(s, v.Sig, time.Now().Add(time.Duration(p.ShrinkS)*time.Second))
			rec.ShrinkTries = tries
			fin := min.Clone()
			fin.Replay, fin.Lenient = true, true
			fr := Run(fin)
			viol := v
			for _, fv := range fr.Violations {
				if fv.Sig == v.Sig {
					viol = fv
				}
			}
			doc := &replayDoc{ReplayFile: sim.ReplayFile{Format: 1, Property: p.Prop, Engine: "codec", Tier: p.Tier, VerifSeed: p.VerifSeed, RunSeed: seed, Build: p.Build,
				Violation: viol, TraceHash: fmt.Sprintf("%016x", fr.TraceHash), Minimised: min != s}, Codec: fin, Log: fr.Log}
			h := fnv.New32a()
			h.Write([]byte(v.Sig))
			path := filepath.Join(p.ReplayDir, fmt.Sprintf("%s-%08x-codec%d-%016x.json", p.Prop, h.Sum32(), p.Worker, seed))
			b, _ := json.MarshalIndent(doc, "", " ")
			os.MkdirAll(p.ReplayDir, 0o755)
			os.WriteFile(path, b, 0o644)
			rec.ReplayFile = path
			rec.Calls = len(fin.FnCalls) + len(fin.DecCalls) + len(fin.EncCalls)
			rec.Detail = viol.Detail
		}
	}
	if hfile != nil {
		hfile.Close()
	}
	sum.WallS = time.Since(start).Seconds()
	return sum
}

// ReplayFile re-executes a codec replay file strictly.
func ReplayFile(path, binDir string) (*sim.ReplayFile, *sim.ReplayResult, error) {
	b, err := os.ReadFile(path)
	if err != nil {
		return nil, nil, err
	}
	var doc replayDoc
	if err := json.Unmarshal(b, &doc); err != nil {
		return nil, nil, err
	}
	if doc.Codec == nil {
		return nil, nil, fmt.Errorf("no codec scenario in %s", path)
	}
	s := doc.Codec
	s.Replay, s.Lenient = true, false
	r := Run(s)
	res := &sim.ReplayResult{TraceHash: fmt.Sprintf("%016x", r.TraceHash), Violations: r.Violations}
	res.Reproduced = sim.HasSig(r.Violations, doc.Violation.Sig)
	res.SameTrace = strings.EqualFold(res.TraceHash, doc.TraceHash)
	return &doc.ReplayFile, res, nil
}
