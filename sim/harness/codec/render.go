// Package codec is the C17 engine: the embedded JSON codec under simulated
// readers/writers, pool faults and failing callbacks, compared with itself in
// a pristine world, with encoding/json and with the harness's own JSON reader.
package codec

import (
	sj "encoding/json"
	"fmt"
	"reflect"
	"sort"
	"strconv"
	"strings"

	fj "github.com/evanphx/json-patch/v5/internal/json"
	"github.com/evanphx/json-patch/v5/zzverif/gen"
)

var (
	fjNumber = reflect.TypeOf(fj.Number(""))
	sjNumber = reflect.TypeOf(sj.Number(""))
)

// Render writes a Go value canonically; the two codecs' Number types render
// identically (the normalisation the property grants).  numAsFloat renders
// Number literals as the float64 they parse to (for comparisons against a
// standard-library decode without UseNumber).
func Render(v any, numAsFloat bool) string {
	var sb strings.Builder
	render(&sb, reflect.ValueOf(v), numAsFloat, 0)
	return sb.String()
}

func render(sb *strings.Builder, v reflect.Value, naf bool, depth int) {
	if depth > 12000 {
		sb.WriteString("<deep>")
		return
	}
	if !v.IsValid() {
		sb.WriteString("nil")
		return
	}
	switch v.Kind() {
	case reflect.Interface:
		if v.IsNil() {
			sb.WriteString("nil")
			return
		}
		render(sb, v.Elem(), naf, depth+1)
	case reflect.Pointer:
		if v.IsNil() {
			sb.WriteString("nilptr")
			return
		}
		if f, ok := v.Interface().(*Flaky); ok {
			fmt.Fprintf(sb, "Flaky(%q)", f.Got)
			return
		}
		sb.WriteByte('&')
		render(sb, v.Elem(), naf, depth+1)
	case reflect.String:
		if v.Type() == fjNumber || v.Type() == sjNumber {
			if naf {
				f, err := strconv.ParseFloat(v.String(), 64)
				if err == nil {
					sb.WriteString("F" + strconv.FormatFloat(f, 'g', -1, 64))
					return
				}
			}
			sb.WriteString("N(" + v.String() + ")")
			return
		}
		sb.WriteString(strconv.Quote(v.String()))
	case reflect.Float32, reflect.Float64:
		sb.WriteString("F" + strconv.FormatFloat(v.Float(), 'g', -1, 64))
	case reflect.Bool:
		fmt.Fprintf(sb, "%v", v.Bool())
	case reflect.Int, reflect.Int8, reflect.Int16, reflect.Int32, reflect.Int64:
		fmt.Fprintf(sb, "I%d", v.Int())
	case reflect.Uint, reflect.Uint8, reflect.Uint16, reflect.Uint32, reflect.Uint64, reflect.Uintptr:
		fmt.Fprintf(sb, "U%d", v.Uint())
	case reflect.Slice, reflect.Array:
		if v.Kind() == reflect.Slice && v.IsNil() {
			sb.WriteString("nilslice")
			return
		}
		if v.Type().Elem().Kind() == reflect.Uint8 && v.Kind() == reflect.Slice {
			sb.WriteString("B" + strconv.Quote(string(v.Bytes())))
			return
		}
		sb.WriteByte('[')
		for i := 0; i < v.Len(); i++ {
			if i > 0 {
				sb.WriteByte(',')
			}
			render(sb, v.Index(i), naf, depth+1)
		}
		sb.WriteByte(']')
	case reflect.Map:
		if v.IsNil() {
			sb.WriteString("nilmap")
			return
		}
		type kv struct{ k, v string }
		var kvs []kv
		it := v.MapRange()
		for it.Next() {
			var kb, vb strings.Builder
			render(&kb, it.Key(), naf, depth+1)
			render(&vb, it.Value(), naf, depth+1)
			kvs = append(kvs, kv{kb.String(), vb.String()})
		}
		sort.Slice(kvs, func(i, j int) bool { return kvs[i].k < kvs[j].k })
		sb.WriteByte('{')
		for i, e := range kvs {
			if i > 0 {
				sb.WriteByte(',')
			}
			sb.WriteString(e.k + ":" + e.v)
		}
		sb.WriteByte('}')
	case reflect.Struct:
		sb.WriteString("S{")
		for i := 0; i < v.NumField(); i++ {
			if i > 0 {
				sb.WriteByte(',')
			}
			sb.WriteString(v.Type().Field(i).Name + "=")
			render(sb, v.Field(i), naf, depth+1)
		}
		sb.WriteByte('}')
	default:
		fmt.Fprintf(sb, "<%s>", v.Kind())
	}
}

// ---------------------------------------------------------------------------
// simulator-owned callback type (S8): fails or panics at a seeded invocation

// FlakyCtl is shared by all Flaky values of one call.
type FlakyCtl struct {
	FailAt int // 1-based invocation that fails; 0: never
	Panic  bool
	calls  int
}

var flakyCtl = &FlakyCtl{}

type flakyErr struct{ n int }

func (e *flakyErr) Error() string { return fmt.Sprintf("flaky callback failed at invocation %d", e.n) }

// Flaky implements both codecs' Unmarshaler and Marshaler (the interfaces are structurally identical).
type Flaky struct {
	Got string
}

func (f *Flaky) UnmarshalJSON(b []byte) error {
	flakyCtl.calls++
	if flakyCtl.FailAt > 0 && flakyCtl.calls == flakyCtl.FailAt {
		if flakyCtl.Panic {
			panic(&flakyErr{flakyCtl.calls})
		}
		return &flakyErr{flakyCtl.calls}
	}
	f.Got = string(b)
	return nil
}

func (f *Flaky) MarshalJSON() ([]byte, error) {
	flakyCtl.calls++
	if flakyCtl.FailAt > 0 && flakyCtl.calls == flakyCtl.FailAt {
		if flakyCtl.Panic {
			panic(&flakyErr{flakyCtl.calls})
		}
		return nil, &flakyErr{flakyCtl.calls}
	}
	if f.Got == "" {
		return []byte("null"), nil
	}
	return []byte(f.Got), nil
}

// FlakyText implements encoding.TextMarshaler / TextUnmarshaler.
type FlakyText struct{ S string }

func (f FlakyText) MarshalText() ([]byte, error) {
	flakyCtl.calls++
	if flakyCtl.FailAt > 0 && flakyCtl.calls == flakyCtl.FailAt {
		return nil, &flakyErr{flakyCtl.calls}
	}
	return []byte(f.S), nil
}

func (f *FlakyText) UnmarshalText(b []byte) error {
	flakyCtl.calls++
	if flakyCtl.FailAt > 0 && flakyCtl.calls == flakyCtl.FailAt {
		return &flakyErr{flakyCtl.calls}
	}
	f.S = string(b)
	return nil
}

// ---------------------------------------------------------------------------
// target types

// Target kinds for decoding.
const (
	TAny = iota
	TMapAny
	TSliceAny
	TRaw
	TString
	TFloat
	TInt
	TStruct
	TMapInt
	TSliceInt
	TFlakySlice
	TFlakyMap
	TMapStruct
	TPtrStruct
	TTextMap
	TStatic
	TMapIntKey
	TArray3
	TBytes
	TUint64
	TPtrPtrInt
	TRedirect // marshal only (fork-specific RedirectMarshaler); decodes like any
	TTrust    // marshal only (fork-specific TrustMarshaler); decodes like any
	NumTargets
)

var targetNames = []string{"any", "map[string]any", "[]any", "RawMessage", "string", "float64", "int", "struct", "map[string]int", "[]int", "[]*Flaky", "map[string]*Flaky", "map[string]struct", "*struct", "map[string]FlakyText", "static type", "map[int]string", "[3]any", "[]byte", "uint64", "**int", "RedirectMarshaler", "TrustMarshaler"}

var tagNames = []string{"a", "b", "c", "foo", "A", "Foo", "", "-", "bar", "a/b", "é", "a_b", "created_at", "kind", "sk8", "user_id", "disk-size", "task2", "käse", "Kévin", "skål", "élèves",
	// names that are not valid tag names (the field name is used instead) and ones that just are
	"it's", "a`b", "a\"b", "semi;colon", "a b", "tilde~", "q?", "a\\b"}

var structCache = map[uint64]reflect.Type{}

// StructType builds a run-time struct type deterministically from a seed.
func StructType(seed uint64) reflect.Type {
	if t, ok := structCache[seed]; ok {
		return t
	}
	r := gen.NewR(seed)
	t := genStruct(r, 2)
	if len(structCache) > 5000 {
		structCache = map[uint64]reflect.Type{}
	}
	structCache[seed] = t
	return t
}

func genStruct(r *gen.R, depth int) (t reflect.Type) {
	n := 1 + r.Intn(5)
	var fields []reflect.StructField
	if r.P(250) {
		et := embedTypes[r.Intn(len(embedTypes))]
		name := et.Name()
		if et.Kind() == reflect.Pointer {
			name = et.Elem().Name()
		}
		ef := reflect.StructField{Name: name, Type: et, Anonymous: true}
		if r.P(150) {
			ef.Tag = `json:"emb"`
		}
		fields = append(fields, ef)
	}
	for i := 0; i < n; i++ {
		f := reflect.StructField{Name: fmt.Sprintf("F%d", i)}
		if r.P(150) {
			// field name itself is the JSON name (no tag), case-insensitive matching applies
			f.Name = []string{"A", "B", "Foo", "Bar", "C"}[r.Intn(5)] + fmt.Sprint(i)
		}
		tag := ""
		if r.P(800) {
			tag = tagNames[r.Intn(len(tagNames))]
			if r.P(250) {
				tag += ",omitempty"
			}
			if r.P(200) {
				tag += ",string"
			}
			f.Tag = reflect.StructTag(`json:` + strconv.Quote(tag))
		}
		switch x := r.Intn(22); {
		case x == 16:
			f.Type = reflect.TypeOf([2]int{})
		case x == 17:
			f.Type = reflect.TypeOf([1]string{})
		case x == 18:
			f.Type = reflect.TypeOf([]byte(nil))
		case x == 19:
			f.Type = reflect.TypeOf(map[int]string(nil))
		case x == 20:
			f.Type = reflect.TypeOf(uint8(0))
		case x == 21:
			f.Type = reflect.TypeOf([0]bool{})
		case x == 0:
			f.Type = reflect.TypeOf(false)
		case x == 1:
			f.Type = reflect.TypeOf(int(0))
		case x == 2:
			f.Type = reflect.TypeOf(int8(0))
		case x == 3:
			f.Type = reflect.TypeOf(uint16(0))
		case x == 4:
			f.Type = reflect.TypeOf(float64(0))
		case x == 5 || x == 6:
			f.Type = reflect.TypeOf("")
		case x == 7:
			f.Type = reflect.TypeOf((*any)(nil)).Elem()
		case x == 8:
			f.Type = reflect.TypeOf([]int(nil))
		case x == 9:
			f.Type = reflect.TypeOf([]string(nil))
		case x == 10:
			f.Type = reflect.TypeOf(map[string]int(nil))
		case x == 11:
			f.Type = reflect.TypeOf(map[string]any(nil))
		case x == 12:
			f.Type = reflect.TypeOf((*int)(nil))
		case x == 13:
			f.Type = reflect.TypeOf((*string)(nil))
		case x == 14 && depth > 0:
			f.Type = genStruct(r, depth-1)
			if r.P(300) {
				f.Type = reflect.SliceOf(f.Type)
			}
		case x == 15 && depth > 0:
			f.Type = reflect.PointerTo(genStruct(r, depth-1))
		default:
			f.Type = reflect.TypeOf(float32(0))
		}
		fields = append(fields, f)
	}
	defer func() {
		if recover() != nil {
			t = reflect.TypeOf(struct {
				A int    `json:"a"`
				B string `json:"b,omitempty"`
			}{})
		}
	}()
	return reflect.StructOf(fields)
}

// NewTarget returns a fresh pointer to a zero value of the target type.
func NewTarget(kind int, typeSeed uint64) any {
	switch kind {
	case TAny:
		return new(any)
	case TMapAny:
		return new(map[string]any)
	case TSliceAny:
		return new([]any)
	case TRaw:
		return new(sj.RawMessage)
	case TString:
		return new(string)
	case TFloat:
		return new(float64)
	case TInt:
		return new(int)
	case TStruct:
		return reflect.New(StructType(typeSeed)).Interface()
	case TMapInt:
		return new(map[string]int)
	case TSliceInt:
		return new([]int)
	case TFlakySlice:
		return new([]*Flaky)
	case TFlakyMap:
		return new(map[string]*Flaky)
	case TMapStruct:
		return reflect.New(reflect.MapOf(reflect.TypeOf(""), StructType(typeSeed))).Interface()
	case TPtrStruct:
		return reflect.New(reflect.PointerTo(StructType(typeSeed))).Interface()
	case TTextMap:
		return new(map[string]FlakyText)
	case TStatic:
		return reflect.New(StaticType(typeSeed)).Interface()
	case TMapIntKey:
		return new(map[int]string)
	case TArray3:
		return new([3]any)
	case TBytes:
		return new([]byte)
	case TUint64:
		return new(uint64)
	case TPtrPtrInt:
		return new(**int)
	}
	return new(any)
}

// PrefilledTarget returns a target that already holds what decoding prefill (with the standard
// library, flaky callbacks switched off) leaves in it; for the interface target the value is
// additionally wrapped so that the interface holds a non-nil pointer now and then, which both
// codecs must decode *into*.
func PrefilledTarget(kind int, typeSeed uint64, prefill []byte) any {
	t := NewTarget(kind, typeSeed)
	if len(prefill) == 0 {
		return t
	}
	saved := *flakyCtl
	*flakyCtl = FlakyCtl{}
	_ = sj.Unmarshal(prefill, t)
	*flakyCtl = saved
	if kind == TAny && len(prefill)%3 == 0 {
		p := t.(*any)
		switch v := (*p).(type) {
		case map[string]any:
			*p = &v
		case []any:
			*p = &v
		case string:
			*p = &v
		case float64:
			*p = &v
		case nil:
			*p = new(In1)
		}
	}
	return t
}

// toFork converts standard-library Numbers inside a dynamic value into the fork's
// Number type (each codec must be given its own Number type).
func toFork(v any) any {
	switch x := v.(type) {
	case sj.Number:
		return fj.Number(x)
	case map[string]any:
		if x == nil {
			return x
		}
		m := make(map[string]any, len(x))
		for k, e := range x {
			m[k] = toFork(e)
		}
		return m
	case []any:
		if x == nil {
			return x
		}
		s := make([]any, len(x))
		for i, e := range x {
			s[i] = toFork(e)
		}
		return s
	}
	return v
}
