package codec

import (
	"bytes"
	sj "encoding/json"
	"errors"
	"fmt"
	"io"
	"reflect"
	"strings"

	fj "github.com/evanphx/json-patch/v5/internal/json"
	"github.com/evanphx/json-patch/v5/zzverif/gen"
	"github.com/evanphx/json-patch/v5/zzverif/jr"
	"github.com/evanphx/json-patch/v5/zzverif/sim"
	"verif.local/simrt"
)

// ReadStep scripts one Read call of the simulated reader.
type ReadStep struct {
	N      int  `json:"n"`                // bytes to deliver at most (0: zero-length read)
	Inject bool `json:"inject,omitempty"` // return (N bytes, injected error): N = 0 is a bare error, N > 0 an error that comes with data; the reader is healthy afterwards
}

// WriteStep scripts one Write call of the simulated writer.
type WriteStep struct {
	Accept int  `json:"accept"` // -1: everything; else a short write of that many bytes with an error
	Fail   bool `json:"fail,omitempty"`
}

// Decoder operations.
const (
	OpDecode = iota
	OpToken
	OpMore
	OpBuffered
	OpOffset
)

var opNames = []string{"Decode", "Token", "More", "Buffered", "InputOffset"}

type DecCall struct {
	Op     int `json:"op"`
	Target int `json:"target,omitempty"`
	// Prefill: the target is not a zero value but what decoding this text (with encoding/json)
	// leaves in it - decoding then merges into existing maps, reuses pointers, truncates slices
	Prefill sim.Bytes `json:"prefill,omitempty"`
}

// Function API calls.
const (
	FUnmarshal = iota
	FUnmarshalWithKeys
	FUnmarshalValid
	FUnmarshalValidWithKeys
	FMarshal
	FMarshalEscaped
	FMarshalIndent
	FValid
	FCompact
	FIndent
	FHTMLEscape
	FDecoderDecode // a fresh Decoder over the whole text (UseNumber / DisallowUnknownFields per call): streams and the function API share pooled state
	FEncoderEncode // a fresh Encoder (SetEscapeHTML / SetIndent per call)
	NumF
)

var fNames = []string{"Unmarshal", "UnmarshalWithKeys", "UnmarshalValid", "UnmarshalValidWithKeys", "Marshal", "MarshalEscaped", "MarshalIndent", "Valid", "Compact", "Indent", "HTMLEscape", "Decoder.Decode", "Encoder.Encode"}

type FnCall struct {
	ID       uint32    `json:"id"`
	Fn       int       `json:"fn"`
	Name     string    `json:"name,omitempty"`
	Text     sim.Bytes `json:"text"`
	Target   int       `json:"target,omitempty"`
	TypeSeed uint64    `json:"type_seed,omitempty"`
	Prefill  sim.Bytes `json:"prefill,omitempty"` // decode targets start from what this text decodes to (see DecCall)
	Escape   bool      `json:"escape,omitempty"`
	Prefix   string    `json:"prefix,omitempty"`
	Indent   string    `json:"indent,omitempty"`
	FailAt   int       `json:"fail_at,omitempty"`
	Panic    bool      `json:"panic,omitempty"`
	Tape     []uint32  `json:"tape,omitempty"`
	// Decoder/Encoder calls: UseNumber, DisallowUnknownFields; Marshal calls: Again = after a failed
	// Marshal the value is repaired (NaN leaves replaced) and the SAME object is marshalled again
	UseNumber bool `json:"use_number,omitempty"`
	Disallow  bool `json:"disallow_unknown,omitempty"`
	Again     bool `json:"again,omitempty"`
}

type EncCall struct {
	Text      sim.Bytes `json:"text"` // the value to encode is this text decoded into Target
	Target    int       `json:"target,omitempty"`
	TypeSeed  uint64    `json:"type_seed,omitempty"`
	Escape    int       `json:"escape,omitempty"` // 0 leave, 1 SetEscapeHTML(true), 2 SetEscapeHTML(false)
	SetIndent bool      `json:"set_indent,omitempty"`
	Prefix    string    `json:"prefix,omitempty"`
	Indent    string    `json:"indent,omitempty"`
	FailAt    int       `json:"fail_at,omitempty"`
}

// Scen is one replayable codec scenario.
type Scen struct {
	Kind string  `json:"kind"` // dec | enc | fn
	Seed uint64  `json:"run_seed"`
	Cfg  sim.Cfg `json:"config"`

	Payload     sim.Bytes  `json:"payload,omitempty"`
	Script      []ReadStep `json:"script,omitempty"`
	EOFWithData bool       `json:"eof_with_data,omitempty"`
	UseNumber   bool       `json:"use_number,omitempty"`
	Disallow    bool       `json:"disallow_unknown,omitempty"`
	TypeSeed    uint64     `json:"type_seed,omitempty"`
	DecCalls    []DecCall  `json:"dec_calls,omitempty"`

	EncCalls []EncCall   `json:"enc_calls,omitempty"`
	WScript  []WriteStep `json:"wscript,omitempty"`

	FnCalls []FnCall `json:"fn_calls,omitempty"`

	Replay  bool `json:"-"`
	Lenient bool `json:"-"`
}

func (s *Scen) Clone() *Scen {
	c := *s
	c.Payload = append(sim.Bytes(nil), s.Payload...)
	c.Script = append([]ReadStep(nil), s.Script...)
	c.DecCalls = append([]DecCall(nil), s.DecCalls...)
	c.EncCalls = append([]EncCall(nil), s.EncCalls...)
	c.WScript = append([]WriteStep(nil), s.WScript...)
	c.FnCalls = make([]FnCall, len(s.FnCalls))
	for i, f := range s.FnCalls {
		c.FnCalls[i] = f
		c.FnCalls[i].Tape = append([]uint32(nil), f.Tape...)
	}
	return &c
}

// ---------------------------------------------------------------------------
// simulated reader / writer

var errInjectedRead = errors.New("simulated read error")
var errInjectedWrite = errors.New("simulated write error")

type simReader struct {
	data        []byte
	pos         int
	script      []ReadStep
	k           int
	eofWithData bool
	reads       int
	fired       map[string]int64
}

func (r *simReader) Read(p []byte) (int, error) {
	r.reads++
	if r.reads > 100000 {
		panic("simReader: runaway reader loop")
	}
	n := len(r.data) - r.pos
	if r.k < len(r.script) {
		st := r.script[r.k]
		r.k++
		if st.Inject && st.N == 0 {
			r.fired["read_error_injected"]++
			return 0, errInjectedRead
		}
		if st.Inject {
			// io.Reader allows n > 0 together with a non-EOF error: the bytes count
			if st.N < n {
				n = st.N
			}
			if n > len(p) {
				n = len(p)
			}
			copy(p, r.data[r.pos:r.pos+n])
			r.pos += n
			if n > 0 {
				r.fired["read_error_with_data"]++
			} else {
				r.fired["read_error_injected"]++
			}
			return n, errInjectedRead
		}
		if st.N == 0 {
			r.fired["zero_len_read"]++
			return 0, nil
		}
		if st.N < n {
			n = st.N
			r.fired["short_read"]++
		}
	}
	if n > len(p) {
		n = len(p)
	}
	if len(r.data)-r.pos == 0 {
		return 0, io.EOF
	}
	copy(p, r.data[r.pos:r.pos+n])
	r.pos += n
	if r.eofWithData && r.pos == len(r.data) {
		r.fired["eof_with_data"]++
		return n, io.EOF
	}
	return n, nil
}

type simWriter struct {
	buf    bytes.Buffer
	script []WriteStep
	k      int
	writes int
	fired  map[string]int64
}

func (w *simWriter) Write(p []byte) (int, error) {
	w.writes++
	if w.k < len(w.script) {
		st := w.script[w.k]
		w.k++
		if st.Fail {
			w.fired["write_error_injected"]++
			return 0, errInjectedWrite
		}
		if st.Accept >= 0 && st.Accept < len(p) {
			w.fired["short_write"]++
			w.buf.Write(p[:st.Accept])
			return st.Accept, io.ErrShortWrite
		}
	}
	w.buf.Write(p)
	return len(p), nil
}

// ---------------------------------------------------------------------------
// rendering of errors and tokens (type names modulo package: both packages are called json)

func errRender(err error) string {
	if err == nil {
		return ""
	}
	var sb strings.Builder
	fmt.Fprintf(&sb, "%T|%s", err, err.Error())
	v := reflect.ValueOf(err)
	if v.Kind() == reflect.Pointer && !v.IsNil() && v.Elem().Kind() == reflect.Struct {
		e := v.Elem()
		for i := 0; i < e.NumField(); i++ {
			f := e.Type().Field(i)
			if !f.IsExported() {
				continue
			}
			switch f.Name {
			case "Offset", "Value", "Struct", "Field", "Key":
				if rv, isRV := e.Field(i).Interface().(reflect.Value); isRV {
					// (UnsupportedValueError.Value: %v would print pointer addresses)
					if rv.IsValid() {
						fmt.Fprintf(&sb, "|%s:%s", f.Name, rv.Type())
					}
					continue
				}
				fmt.Fprintf(&sb, "|%s=%v", f.Name, e.Field(i).Interface())
			case "Type":
				fmt.Fprintf(&sb, "|Type=%v", e.Field(i).Interface())
			}
		}
	}
	return sb.String()
}

func tokRender(t any) string {
	switch x := t.(type) {
	case fj.Delim:
		return "D" + string(rune(x))
	case sj.Delim:
		return "D" + string(rune(x))
	}
	return Render(t, false)
}

type stepResult struct {
	Op  string `json:"op"`
	Val string `json:"val,omitempty"`
	Err string `json:"err,omitempty"`
	Off int64  `json:"off"`
}

func guard(res *stepResult, f func()) {
	defer func() {
		if r := recover(); r != nil {
			if h, ok := r.(simrt.HangSentinel); ok {
				res.Err = "hang: " + h.Error()
				return
			}
			res.Err = fmt.Sprintf("panic: %v", r)
		}
	}()
	f()
}

// ---------------------------------------------------------------------------
// Decoder runs

type decRun struct {
	Steps []stepResult
	Reads int
	Fired map[string]int64
}

func (s *Scen) reader(script []ReadStep) *simReader {
	return &simReader{data: s.Payload, script: script, eofWithData: s.EOFWithData, fired: map[string]int64{}}
}

func runDecFork(s *Scen, script []ReadStep, w *simrt.World) *decRun {
	*flakyCtl = FlakyCtl{}
	r := s.reader(script)
	dec := fj.NewDecoder(r)
	if s.UseNumber {
		dec.UseNumber()
	}
	if s.Disallow {
		dec.DisallowUnknownFields()
	}
	out := &decRun{Fired: r.fired}
	for i, c := range s.DecCalls {
		res := stepResult{Op: opNames[c.Op]}
		w.BeginCall(uint32(i+1), uint32(c.Op), nil, 20_000_000+int64(len(s.Payload))*int64(len(s.Payload))*40)
		guard(&res, func() {
			switch c.Op {
			case OpDecode:
				t := PrefilledTarget(c.Target, s.TypeSeed, c.Prefill)
				err := dec.Decode(t)
				res.Val, res.Err = Render(t, false), errRender(err)
			case OpToken:
				t, err := dec.Token()
				res.Val, res.Err = tokRender(t), errRender(err)
			case OpMore:
				res.Val = fmt.Sprint(dec.More())
			case OpBuffered:
				b, _ := io.ReadAll(dec.Buffered())
				res.Val = string(b)
			case OpOffset:
			}
			res.Off = dec.InputOffset()
		})
		w.EndCall(res.Err != "", 0)
		out.Steps = append(out.Steps, res)
	}
	out.Reads = r.reads
	return out
}

func runDecStd(s *Scen, script []ReadStep) *decRun {
	*flakyCtl = FlakyCtl{}
	r := s.reader(script)
	dec := sj.NewDecoder(r)
	if s.UseNumber {
		dec.UseNumber()
	}
	if s.Disallow {
		dec.DisallowUnknownFields()
	}
	out := &decRun{Fired: r.fired}
	for _, c := range s.DecCalls {
		res := stepResult{Op: opNames[c.Op]}
		guard(&res, func() {
			switch c.Op {
			case OpDecode:
				t := PrefilledTarget(c.Target, s.TypeSeed, c.Prefill)
				err := dec.Decode(t)
				res.Val, res.Err = Render(t, false), errRender(err)
			case OpToken:
				t, err := dec.Token()
				res.Val, res.Err = tokRender(t), errRender(err)
			case OpMore:
				res.Val = fmt.Sprint(dec.More())
			case OpBuffered:
				b, _ := io.ReadAll(dec.Buffered())
				res.Val = string(b)
			case OpOffset:
			}
			res.Off = dec.InputOffset()
		})
		out.Steps = append(out.Steps, res)
	}
	out.Reads = r.reads
	return out
}

// ---------------------------------------------------------------------------
// values to encode

// buildValue decodes text with the standard library into the target type and
// returns the value for the standard library and for the fork (own Number type).
func buildValue(text []byte, target int, typeSeed uint64) (std any, fork any, ok bool) {
	flakyCtl.FailAt = 0
	if target == TRedirect || target == TTrust {
		var v any
		dec := sj.NewDecoder(bytes.NewReader(text))
		dec.UseNumber()
		if err := dec.Decode(&v); err != nil {
			return nil, nil, false
		}
		if target == TTrust {
			if !jr.Valid(text) {
				return nil, nil, false
			}
			// std side: the model output is assembled by trustModel (no standard-library counterpart)
			return trustMarker{typeSeed, string(text)}, wrapShape(typeSeed, &Trust{Text: string(text)}), true
		}
		fv := toFork(v)
		if typeSeed&48 == 48 {
			// the redirected value contains a Marshaler of its own (which may be scripted to fail)
			return wrapShape(typeSeed, []any{v, &Flaky{Got: string(text)}}), wrapShape(typeSeed, Redir{V: []any{fv, &Flaky{Got: string(text)}}}), true
		}
		if typeSeed&4 != 0 {
			return wrapShape(typeSeed, v), wrapShape(typeSeed, Redir{V: Redir{V: fv}}), true
		}
		return wrapShape(typeSeed, v), wrapShape(typeSeed, Redir{V: fv}), true
	}
	t := NewTarget(target, typeSeed)
	dec := sj.NewDecoder(bytes.NewReader(text))
	dec.UseNumber()
	if err := dec.Decode(t); err != nil {
		return nil, nil, false
	}
	ms, mutate := mutateSeed(text, typeSeed)
	switch target {
	case TAny, TMapAny, TSliceAny:
		v := reflect.ValueOf(t).Elem().Interface()
		fv := forkDyn(v)
		if mutate {
			// the same seed and traversal on both copies (they differ in the Number type only)
			pv, pf := reflect.New(reflect.TypeOf(t).Elem()), reflect.New(reflect.TypeOf(t).Elem())
			pv.Elem().Set(reflect.ValueOf(t).Elem())
			if fv != nil {
				pf.Elem().Set(reflect.ValueOf(fv))
			}
			mutateValue(pv.Elem(), gen.NewR(ms), 0)
			mutateValue(pf.Elem(), gen.NewR(ms), 0)
			return pv.Elem().Interface(), pf.Elem().Interface(), true
		}
		return v, fv, true
	case TStruct, TMapStruct, TPtrStruct, TStatic, TArray3, TPtrPtrInt, TFlakySlice, TFlakyMap:
		// struct fields of interface type may hold Numbers: decode again without UseNumber
		t2 := NewTarget(target, typeSeed)
		if err := sj.Unmarshal(text, t2); err != nil {
			return nil, nil, false
		}
		if mutate {
			mutateValue(reflect.ValueOf(t2).Elem(), gen.NewR(ms), 0)
		}
		v2 := reflect.ValueOf(t2).Elem().Interface()
		return v2, v2, true
	}
	v := reflect.ValueOf(t).Elem().Interface()
	return v, v, true
}

func forkDyn(v any) any {
	switch x := v.(type) {
	case map[string]any:
		return toFork(x)
	case []any:
		return toFork(x)
	}
	return toFork(v)
}

// trustMarker stands for "a document containing a TrustMarshaler" on the model side.
type trustMarker struct {
	shape uint64
	text  string
}

// normEsc rewrites the \u0008 and \u000c spellings to \b and \f inside JSON
// string literals (the spelling differs between Go releases; the property
// grants this normalisation).
func normEsc(b []byte) []byte {
	out := make([]byte, 0, len(b))
	inStr := false
	for i := 0; i < len(b); i++ {
		c := b[i]
		if !inStr {
			if c == '"' {
				inStr = true
			}
			out = append(out, c)
			continue
		}
		if c == '"' {
			inStr = false
			out = append(out, c)
			continue
		}
		if c == '\\' && i+6 < len(b) && b[i+1] == '\\' && b[i+2] == 'u' {
			// the same spelling difference one level down: a string field tagged ",string" holds the
			// JSON encoding of its value, so the inner \u0008 arrives as \\u0008 (vs \\b)
			h := strings.ToLower(string(b[i+3 : i+7]))
			if h == "0008" || h == "000c" {
				out = append(out, '\\', '\\', map[string]byte{"0008": 'b', "000c": 'f'}[h])
				i += 6
				continue
			}
		}
		if c == '\\' && i+1 < len(b) {
			if b[i+1] == 'u' && i+5 < len(b) {
				h := strings.ToLower(string(b[i+2 : i+6]))
				if h == "0008" {
					out = append(out, '\\', 'b')
					i += 5
					continue
				}
				if h == "000c" {
					out = append(out, '\\', 'f')
					i += 5
					continue
				}
			}
			out = append(out, c, b[i+1])
			i++
			continue
		}
		out = append(out, c)
	}
	return out
}

// ---------------------------------------------------------------------------
// generation

func genStreamPayload(g *gen.G) (string, int64) {
	r := g.R
	n := 1 + r.Intn(6)
	var sb strings.Builder
	var faults int64
	for i := 0; i < n; i++ {
		v := g.Value(3)
		if r.P(120) {
			v = g.Corrupt(1+r.Intn(gen.NumFaults-1), v, g.Value(2))
			faults++
		}
		sb.WriteString(v)
		sb.WriteString(r.Pick([]string{" ", "\n", "", "\t\n", "  ", "\r\n", ""}))
		if i < n-1 && (strings.HasSuffix(v, "0") || strings.HasSuffix(v, "e") || len(v) > 0 && v[len(v)-1] >= '0' && v[len(v)-1] <= '9' || strings.HasSuffix(v, "l")) {
			sb.WriteString(" ")
		}
	}
	if r.P(80) {
		sb.WriteString(r.Pick([]string{"x", "}", "]", ",", "nul", "\"", "\x00"}))
		faults++
	}
	return sb.String(), faults
}

var readSizes = []int{1, 1, 2, 3, 5, 8, 13, 21, 64, 511, 512, 513, 600, 4096}

func genScript(r *gen.R, payloadLen int) []ReadStep {
	var sc []ReadStep
	if r.P(150) {
		return nil // whole-buffer reads
	}
	if r.P(40) {
		// a slow trickle: one to three bytes at a time with a zero-length read (sometimes two) before
		// each - never many in a row, more than a hundred over the life of the stream
		for i, m := 0, 110+r.Intn(150); i < m; i++ {
			sc = append(sc, ReadStep{N: 0})
			if r.P(200) {
				sc = append(sc, ReadStep{N: 0})
			}
			sc = append(sc, ReadStep{N: 1 + r.Intn(3)})
		}
		return sc
	}
	n := 1 + r.Intn(64)
	zero := 0
	for i := 0; i < n; i++ {
		switch x := r.Intn(100); {
		case x < 6 && zero < 3:
			sc = append(sc, ReadStep{N: 0})
			zero++
		case x < 10:
			sc = append(sc, ReadStep{Inject: true})
			zero = 0
		case x < 14:
			sc = append(sc, ReadStep{Inject: true, N: readSizes[r.Intn(len(readSizes))]})
			zero = 0
		default:
			sc = append(sc, ReadStep{N: readSizes[r.Intn(len(readSizes))]})
			zero = 0
		}
	}
	return sc
}

func genCfg(r *gen.R) sim.Cfg {
	c := sim.Cfg{Warm: r.P(700)}
	switch x := r.Intn(100); {
	case x < 10:
		c.Pool = simrt.PoolFresh
	case x < 35:
		c.Pool = simrt.PoolLIFO
	case x < 50:
		c.Pool = simrt.PoolFIFO
	case x < 75:
		c.Pool = simrt.PoolArbitrary
	default:
		c.Pool = simrt.PoolAdversarial
	}
	if r.P(300) {
		c.Evict = 200
	}
	c.MapOrder = r.Intn(simrt.NumMapPolicies)
	if r.P(300) {
		c.Intrude = []int{100, 300, 1000}[r.Intn(3)]
	}
	return c
}

func pickTarget(r *gen.R, text string) int {
	// bias the target towards something the text can decode into
	t := strings.TrimLeft(text, " \t\r\n")
	if r.P(250) {
		return r.Intn(NumTargets)
	}
	switch {
	case strings.HasPrefix(t, "{"):
		return []int{TAny, TMapAny, TStruct, TStruct, TMapInt, TFlakyMap, TMapStruct, TPtrStruct, TRaw, TTextMap, TStatic, TStatic, TMapIntKey, TRedirect, TTrust}[r.Intn(15)]
	case strings.HasPrefix(t, "["):
		return []int{TAny, TSliceAny, TSliceInt, TFlakySlice, TRaw, TArray3, TStatic, TRedirect, TTrust}[r.Intn(9)]
	case strings.HasPrefix(t, "\""):
		return []int{TAny, TString, TRaw, TBytes, TRedirect}[r.Intn(5)]
	default:
		return []int{TAny, TFloat, TInt, TRaw, TUint64, TPtrPtrInt, TRedirect, TTrust}[r.Intn(8)]
	}
}

var typedTargets = []int{TStruct, TStruct, TMapStruct, TPtrStruct, TStatic, TStatic, TStatic, TMapIntKey, TArray3, TBytes, TUint64, TPtrPtrInt, TMapInt, TSliceInt, TTextMap}

// typedText picks a typed target and a text aimed at its Go type.
func typedText(g *gen.G, typeSeed uint64) (int, string) {
	t := typedTargets[g.R.Intn(len(typedTargets))]
	text := GenFor(g, TargetType(t, typeSeed), 3)
	if g.R.P(50) {
		text = g.Corrupt(1+g.R.Intn(gen.NumFaults-1), text, g.Value(2))
	}
	return t, text
}

// prefillFor returns a text to pre-populate a decode target with (empty: zero value).
func prefillFor(g *gen.G, target int, typeSeed uint64) sim.Bytes {
	if !g.R.P(250) {
		return nil
	}
	switch target {
	case TAny:
		return sim.Bytes(g.Value(2))
	case TRaw, TString, TFloat, TInt, TUint64, TBytes:
		return sim.Bytes(GenFor(g, TargetType(target, typeSeed), 1))
	}
	return sim.Bytes(GenFor(g, TargetType(target, typeSeed), 3))
}

// Gen generates one scenario from a seed.
func Gen(seed uint64) *Scen {
	r := gen.NewR(seed)
	g := gen.New(r)
	g.NoHuge = true
	g.Awkward = r.P(300)
	s := &Scen{Seed: seed, Cfg: genCfg(r), TypeSeed: r.U64() % 4096}
	switch x := r.Intn(100); {
	case x < 40:
		s.Kind = "dec"
		typed := r.P(350)
		var p string
		var typedKinds []int
		if typed {
			var sb strings.Builder
			for i, m := 0, 1+r.Intn(5); i < m; i++ {
				k, t := typedText(g, s.TypeSeed)
				typedKinds = append(typedKinds, k)
				sb.WriteString(t)
				sb.WriteString(r.Pick([]string{" ", "\n", "\t\n", "  ", "\r\n"}))
			}
			p = sb.String()
		} else {
			p, _ = genStreamPayload(g)
		}
		s.Payload = sim.Bytes(p)
		s.Script = genScript(r, len(p))
		s.EOFWithData = r.P(400)
		s.UseNumber = r.Bool()
		s.Disallow = r.P(200)
		n := 1 + r.Intn(14)
		if typed {
			// decode the values in order with their own target types (a Token/More call in between now and then)
			n = 0
			for _, k := range typedKinds {
				if r.P(100) {
					s.DecCalls = append(s.DecCalls, DecCall{Op: []int{OpMore, OpOffset, OpBuffered}[r.Intn(3)]})
				}
				s.DecCalls = append(s.DecCalls, DecCall{Op: OpDecode, Target: k, Prefill: prefillFor(g, k, s.TypeSeed)})
			}
			s.DecCalls = append(s.DecCalls, DecCall{Op: OpDecode, Target: TAny})
		}
		for i := 0; i < n; i++ {
			switch y := r.Intn(100); {
			case y < 50:
				tk := pickTarget(r, p)
				s.DecCalls = append(s.DecCalls, DecCall{Op: OpDecode, Target: tk, Prefill: prefillFor(g, tk, s.TypeSeed)})
			case y < 75:
				s.DecCalls = append(s.DecCalls, DecCall{Op: OpToken})
			case y < 85:
				s.DecCalls = append(s.DecCalls, DecCall{Op: OpMore})
			case y < 93:
				s.DecCalls = append(s.DecCalls, DecCall{Op: OpBuffered})
			default:
				s.DecCalls = append(s.DecCalls, DecCall{Op: OpOffset})
			}
		}
	case x < 60:
		s.Kind = "enc"
		n := 1 + r.Intn(6)
		for i := 0; i < n; i++ {
			text := g.Value(3)
			target := pickTarget(r, text)
			if r.P(400) {
				target, text = typedText(g, s.TypeSeed)
			}
			if target == TTrust {
				target = TRedirect // the Encoder comparison needs a standard-library counterpart
			}
			c := EncCall{Text: sim.Bytes(text), Target: target, TypeSeed: s.TypeSeed, Escape: r.Intn(3)}
			if r.P(250) {
				c.SetIndent = true
				c.Prefix = r.Pick([]string{"", "", ">", " "})
				c.Indent = r.Pick([]string{"", " ", "\t", "  "})
			}
			if (c.Target == TFlakySlice || c.Target == TFlakyMap || c.Target == TTextMap || c.Target == TStatic) && r.P(500) {
				c.FailAt = 1 + r.Intn(3)
			}
			s.EncCalls = append(s.EncCalls, c)
		}
		if r.P(500) {
			m := 1 + r.Intn(5)
			for i := 0; i < m; i++ {
				switch y := r.Intn(10); {
				case y < 2:
					s.WScript = append(s.WScript, WriteStep{Fail: true})
				case y < 4:
					s.WScript = append(s.WScript, WriteStep{Accept: r.Intn(8)})
				default:
					s.WScript = append(s.WScript, WriteStep{Accept: -1})
				}
			}
		}
	default:
		s.Kind = "fn"
		n := 2 + r.Intn(12)
		var texts []string
		for i := 0; i < 1+r.Intn(4); i++ {
			t := g.Value(3)
			if r.P(500) {
				t = g.Object(3)
			}
			if r.P(150) {
				t = g.Corrupt(1+r.Intn(gen.NumFaults-1), t, g.Value(2))
			}
			if r.P(100) {
				t = " " + t + "\n"
			}
			texts = append(texts, t)
		}
		for i := 0; i < n; i++ {
			var c FnCall
			if len(s.FnCalls) > 0 && r.P(300) {
				c = s.FnCalls[r.Intn(len(s.FnCalls))] // repeat a descriptor later in the history
				c.Tape = nil
			} else {
				text := texts[r.Intn(len(texts))]
				target := pickTarget(r, text)
				if r.P(350) {
					target, text = typedText(g, s.TypeSeed)
				}
				c = FnCall{Fn: r.Intn(NumF), Text: sim.Bytes(text), Target: target, TypeSeed: s.TypeSeed, Escape: r.Bool()}
				if c.Fn <= FUnmarshalValidWithKeys || c.Fn == FDecoderDecode {
					c.Prefill = prefillFor(g, target, s.TypeSeed)
				}
				if c.Fn == FDecoderDecode {
					c.UseNumber, c.Disallow = r.Bool(), r.P(400)
				}
				c.Again = r.P(300)
				if c.Fn == FMarshalIndent || c.Fn == FIndent {
					c.Prefix = r.Pick([]string{"", "", ">", " "})
					c.Indent = r.Pick([]string{"", " ", "\t", "  "})
				}
				if (c.Target == TFlakySlice || c.Target == TFlakyMap || c.Target == TTextMap || c.Target == TStatic || c.Target == TRedirect || c.Target == TTrust) && r.P(600) {
					c.FailAt = 1 + r.Intn(3)
					c.Panic = r.P(350)
				}
			}
			c.ID = uint32(i + 1)
			c.Name = fNames[c.Fn]
			s.FnCalls = append(s.FnCalls, c)
		}
	}
	return s
}

// jrEqualTexts reports whether two texts are well-formed and denote the same value.
func jrEqualTexts(a, b []byte) (bool, bool) {
	av, aerr := jr.Parse(a)
	bv, berr := jr.Parse(b)
	if aerr != nil || berr != nil {
		return false, false
	}
	return jr.Equal(av, bv), true
}
