package codec

import (
	"bytes"
	"encoding/base64"
	"fmt"
	"reflect"
	"strconv"
	"strings"

	fj "github.com/evanphx/json-patch/v5/internal/json"
	"github.com/evanphx/json-patch/v5/zzverif/gen"
)

// ---------------------------------------------------------------------------
// Hand-written types: what reflect.StructOf cannot build (embedding with field
// promotion and conflicts, recursive types, unexported fields, text-keyed maps).
// Every type is shared by both codecs, so encoding/json is the oracle.

type In1 struct {
	X int    `json:"x"`
	Y string `json:"y,omitempty"`
}

type In2 struct {
	X int    `json:"x"` // conflicts with In1.X at the same depth: both are dropped
	Z []byte `json:"z"`
}

type In3 struct {
	Deep In1  `json:"deep"`
	W    *int `json:"w,omitempty"`
}

type St1 struct {
	In1
	A int `json:"a"`
}

type St2 struct {
	*In1
	B string
}

type St3 struct {
	In1
	In2
	C bool `json:"c,string"`
}

type St4 struct {
	In1 `json:"inner"`
	X   float64
}

type St5 struct {
	Arr   [3]int         `json:"arr"`
	Bytes []byte         `json:"bytes"`
	PP    **int          `json:"pp"`
	U     uint64         `json:"u"`
	I8    int8           `json:"i8"`
	F32   float32        `json:"f32"`
	M     map[int]string `json:"m"`
}

type St6 struct {
	unexported int
	Dash       int     `json:"-"`
	DashComma  int     `json:"-,"`
	Omit       *In1    `json:",omitempty"`
	Iface      any     `json:"iface,omitempty"`
	Str        int     `json:"str,string"`
	FS         float64 `json:"fs,string,omitempty"`
	Any        any
}

type St7 struct {
	T  FlakyText                 `json:"t"`
	MT map[FlakyText]int         `json:"mt"`
	PF *Flaky                    `json:"pf"`
	SF []*Flaky                  `json:"sf,omitempty"`
	MM map[string]map[string]int `json:"mm"`
}

// Node is recursive: its encoder is built through the placeholder/WaitGroup path of typeEncoder.
type Node struct {
	V    int              `json:"v"`
	Next *Node            `json:"next,omitempty"`
	Kids []Node           `json:"kids,omitempty"`
	M    map[string]*Node `json:"m,omitempty"`
}

type St8 struct {
	In3
	X    string `json:"x"`    // shallower than In3.Deep.X? no: In3 has no X; plain field
	Deep int    `json:"deep"` // shadows the promoted In3.Deep
}

type St9 struct {
	A int    `json:"a"`
	B int    `json:"A"` // differs from "a" only by case: exact match wins, then case-insensitive
	C int    `json:"é"`
	D string `json:"a/b"`
	E []any  `json:"e"`
}

// three and four levels of embedding: index paths of promoted fields grow past small capacities
type Lv4 struct {
	Lat float64 `json:"lat"`
	Lon float64 `json:"lon"`
	Alt float64 `json:"alt,omitempty"`
}
type Lv3 struct {
	Lv4
	Tag3 string `json:"tag3"`
}
type Lv2 struct {
	Lv3
	N2 int `json:"n2"`
}
type Lv1 struct {
	*Lv2
	N1 int `json:"n1"`
}
type St10 struct {
	Lv1
	Name string `json:"name"`
}
type St11 struct {
	Lv2
	Lv4x Lv4 `json:"lv4"`
	Lat  int `json:"Lat"` // differs from the promoted "lat" by case only
}

// names the case-folding comparers treat specially: '_' (vs DEL), k/s (Kelvin sign, long s), digits
type St12 struct {
	CreatedAt string `json:"created_at"`
	AB        int    `json:"a_b"`
	Kind      string `json:"kind"`
	Sk        int    `json:"sk8"`
	At        bool   `json:"@x"`
	Plain     int    `json:"plain"`
	Under     int    `json:"_"`
	UserID    int    `json:"user_id"`
	DiskSize  string `json:"disk-size"`
	Task2     bool   `json:"task2"`
	Ks        int    `json:"Ks"`
	// k/s before the first non-ASCII letter, and after it
	Kaese  string `json:"käse"`
	Kevin  int    `json:"Kévin"`
	Skal   bool   `json:"skål"`
	Eleves int    `json:"élèves"`
}

// omitempty on every kind, arrays included ([2]int{0,0} is not empty, [0]int is)
type St13 struct {
	Z   [2]int          `json:"z,omitempty"`
	ZS  [1]string       `json:"zs,omitempty"`
	E   [0]int          `json:"e,omitempty"`
	B   bool            `json:"b,omitempty"`
	F   float64         `json:"f,omitempty"`
	U   uint8           `json:"u,omitempty"`
	S   string          `json:"s,omitempty"`
	P   *int            `json:"p,omitempty"`
	SL  []int           `json:"sl,omitempty"`
	M   map[string]int  `json:"m,omitempty"`
	I   any             `json:"i,omitempty"`
	ST  In1             `json:"st,omitempty"`
	AP  [2]*int         `json:"ap,omitempty"`
	AS  [1]In1          `json:"as,omitempty"`
	BS  []byte          `json:"bs,omitempty"`
	MI  map[int][2]bool `json:"mi,omitempty"`
	FS  float32         `json:"fs,omitempty,string"`
	Neg float64         `json:"neg,omitempty"`
}

// Al: a struct and a pointer to its first field have the same address but different types -
// cycle detection (which starts 1000 pointer levels down) must tell them apart.
type AlIn struct {
	A int `json:"a"`
}
type Al struct {
	First AlIn    `json:"first"`
	PF    *AlIn   `json:"pf,omitempty"`
	F     float64 `json:"f,omitempty"`
	Next  *Al     `json:"next,omitempty"`
}

// repairValue replaces the NaN leaves the mutator put into an Al chain (in place: the object
// keeps its addresses) and reports whether it changed anything.
func repairValue(v any) bool {
	var a *Al
	switch x := v.(type) {
	case *Al:
		a = x
	case Al:
		a = x.Next // the copy shares every node below the first
	default:
		return false
	}
	changed := false
	for n := 0; a != nil && n < 4000; a, n = a.Next, n+1 {
		if a.F != a.F {
			a.F = 1
			changed = true
		}
	}
	return changed
}

var alType = reflect.TypeOf(Al{})

// maps with every kind of element (the decoder reuses one scratch element per map)
type St14 struct {
	MS  map[string][]int          `json:"ms"`
	MSS map[string][]string       `json:"mss"`
	MP  map[string]*int           `json:"mp"`
	MA  map[string][2]int         `json:"ma"`
	MI  map[string]any            `json:"mi"`
	MM  map[string]map[string]int `json:"mm"`
	MST map[string]In1            `json:"mst"`
	MB  map[string][]byte         `json:"mb"`
	MSL map[string][][]int        `json:"msl"`
}

// one struct type reached twice at the same depth: through two pointer embeddings (St15), through
// a value and a pointer embedding (St16) - its fields are ambiguous and must be ignored; reached
// at different depths (St17) the shallower one wins
type Leaf15 struct {
	X int
	Y string `json:"y"`
}
type L15 struct{ *Leaf15 }
type R15 struct{ *Leaf15 }
type P16 struct {
	*Leaf15
	Own int `json:"own"`
}
type St15 struct {
	L15
	R15
	Z int `json:"z"`
}
type St16 struct {
	Leaf15
	P16
}
type St17 struct {
	*Leaf15
	L15
	W bool `json:"w"`
}

var staticTypes = []reflect.Type{
	reflect.TypeOf(St15{}), reflect.TypeOf(St16{}), reflect.TypeOf(St17{}), reflect.TypeOf([]St15{}),
	reflect.TypeOf(St1{}), reflect.TypeOf(St2{}), reflect.TypeOf(St3{}), reflect.TypeOf(St4{}), reflect.TypeOf(St5{}),
	reflect.TypeOf(St6{}), reflect.TypeOf(St7{}), reflect.TypeOf(Node{}), reflect.TypeOf(St8{}), reflect.TypeOf(St9{}),
	reflect.TypeOf([]St1{}), reflect.TypeOf(map[string]Node{}), reflect.TypeOf([2]St5{}),
	reflect.TypeOf(St14{}), reflect.TypeOf(map[string][]int{}), reflect.TypeOf(map[string][]string{}), alType, reflect.TypeOf(St10{}), reflect.TypeOf(St11{}), reflect.TypeOf(St12{}), reflect.TypeOf(St13{}), reflect.TypeOf([]St13{}), reflect.TypeOf(map[string]*St10{}),
}

var embedTypes = []reflect.Type{reflect.TypeOf(In1{}), reflect.TypeOf(In2{}), reflect.TypeOf(In3{}), reflect.TypeOf(&In1{}), reflect.TypeOf(Lv2{}), reflect.TypeOf(Lv1{}), reflect.TypeOf(&Lv3{})}

// StaticType selects one of the hand-written types.
func StaticType(seed uint64) reflect.Type { return staticTypes[seed%uint64(len(staticTypes))] }

// TargetType is the Go type a target kind decodes into (nil for dynamic ones handled elsewhere).
func TargetType(kind int, typeSeed uint64) reflect.Type {
	return reflect.TypeOf(NewTarget(kind, typeSeed)).Elem()
}

// ---------------------------------------------------------------------------
// The fork's own marshaler interfaces (no standard-library counterpart): the
// oracle is their contract - a RedirectMarshaler encodes as the value it returns,
// a TrustMarshaler's bytes reach the output verbatim.

type Redir struct{ V any }

func (r Redir) RedirectMarshalJSON() (any, error) {
	flakyCtl.calls++
	if flakyCtl.FailAt > 0 && flakyCtl.calls == flakyCtl.FailAt {
		if flakyCtl.Panic {
			panic(&flakyErr{flakyCtl.calls})
		}
		return nil, &flakyErr{flakyCtl.calls}
	}
	return r.V, nil
}

type Trust struct{ Text string }

func (t *Trust) TrustMarshalJSON(b *bytes.Buffer) error {
	flakyCtl.calls++
	if flakyCtl.FailAt > 0 && flakyCtl.calls == flakyCtl.FailAt {
		if flakyCtl.Panic {
			panic(&flakyErr{flakyCtl.calls})
		}
		// a failing TrustMarshaler may already have written part of its output
		b.WriteString(t.Text[:len(t.Text)/2])
		return &flakyErr{flakyCtl.calls}
	}
	b.WriteString(t.Text)
	return nil
}

var _ fj.RedirectMarshaler = Redir{}
var _ fj.TrustMarshaler = (*Trust)(nil)

// wrapShape places a value inside one of four container shapes.
func wrapShape(shape uint64, inner any) any {
	switch shape % 4 {
	case 1:
		return []any{inner, "x"}
	case 2:
		return map[string]any{"k": inner}
	case 3:
		return &struct {
			P any `json:"p"`
			Q int `json:"q,omitempty"`
		}{P: inner}
	}
	return inner
}

// trustModel is what a document containing a TrustMarshaler must encode to (before Indent).
func trustModel(shape uint64, text string) string {
	switch shape % 4 {
	case 1:
		return "[" + text + `,"x"]`
	case 2:
		return `{"k":` + text + "}"
	case 3:
		return `{"p":` + text + "}"
	}
	return text
}

// ---------------------------------------------------------------------------
// Type-directed text generation: JSON that (mostly) fits a Go type, so that the
// struct/tag/pointer/array paths of the codec are exercised with values rather
// than with type errors only.

type fieldInfo struct {
	name      string
	typ       reflect.Type
	quoted    bool
	omitempty bool
}

func jsonFields(t reflect.Type, depth int) []fieldInfo {
	var out []fieldInfo
	if depth > 4 {
		return nil
	}
	for i := 0; i < t.NumField(); i++ {
		f := t.Field(i)
		tag := f.Tag.Get("json")
		if tag == "-" {
			continue
		}
		name, opts, _ := strings.Cut(tag, ",")
		if f.Anonymous && name == "" {
			ft := f.Type
			if ft.Kind() == reflect.Pointer {
				ft = ft.Elem()
			}
			if ft.Kind() == reflect.Struct {
				out = append(out, jsonFields(ft, depth+1)...)
				continue
			}
		}
		if !f.IsExported() {
			continue
		}
		if name == "" {
			name = f.Name
		}
		out = append(out, fieldInfo{name: name, typ: f.Type, quoted: strings.Contains(","+opts+",", ",string,"), omitempty: strings.Contains(opts, "omitempty")})
	}
	return out
}

var (
	flakyPtrType  = reflect.TypeOf(&Flaky{})
	flakyTextType = reflect.TypeOf(FlakyText{})
)

func caseVariant(r *gen.R, s string) string {
	if s != "" && r.P(400) {
		// spellings the case-insensitive comparers must (or must not) accept: bit 0x20 flipped in one
		// byte ('_' vs DEL, '@' vs '`', digits vs control bytes), Kelvin sign for k, long s for s
		b := []byte(s)
		i := r.Intn(len(b))
		if r.P(150) {
			for j := range b {
				if b[j] == 'i' || b[j] == 'I' {
					i = j
					break
				}
			}
		} else if r.Bool() {
			// prefer a byte that is not a letter, if there is one
			for j := range b {
				if u := b[j] &^ 0x20; (u < 'A' || u > 'Z') && b[j] < 0x80 {
					i = j
					break
				}
			}
		}
		switch {
		case (b[i] == 'i' || b[i] == 'I') && r.Bool():
			// dotted capital I / dotless small i: related to i and I by ToLower/ToUpper, not by simple folding
			return string(b[:i]) + r.Pick([]string{"\u0130", "\u0131"}) + string(b[i+1:])
		case (b[i] == 'k' || b[i] == 'K') && r.Bool():
			return string(b[:i]) + "\u212a" + string(b[i+1:])
		case (b[i] == 's' || b[i] == 'S') && r.Bool():
			return string(b[:i]) + "\u017f" + string(b[i+1:])
		case b[i] < 0x80:
			b[i] ^= 0x20
			return string(b)
		}
	}
	switch r.Intn(3) {
	case 0:
		return strings.ToUpper(s)
	case 1:
		return strings.ToLower(s)
	}
	if s == "" {
		return s
	}
	return strings.ToUpper(s[:1]) + s[1:]
}

// GenFor returns a JSON text aimed at type t.
func GenFor(g *gen.G, t reflect.Type, depth int) string {
	r := g.R
	if (t == alType || t == nodeType) && depth >= 3 && r.P(120) {
		// a pointer chain deeper than the 1000 levels after which the encoders start looking for cycles
		n := 1001 + r.Intn(200)
		return strings.Repeat(`{"next":`, n) + `{"first":{"a":1},"v":2}` + strings.Repeat("}", n)
	}
	if r.P(60) {
		return g.Value(1) // deliberate mismatch
	}
	if t == flakyPtrType || t == flakyTextType {
		if t == flakyTextType {
			return r.Pick([]string{`"t"`, `""`, `"a b"`, `"<&>"`, `"é"`})
		}
		return g.Value(1)
	}
	switch t.Kind() {
	case reflect.Bool:
		return r.Pick([]string{"true", "false"})
	case reflect.Int, reflect.Int16, reflect.Int32, reflect.Int64:
		return r.Pick([]string{"0", "1", "-1", "42", "-7", "1000000", "9223372036854775807", "9223372036854775808", "1.5", "1e2", "-0"})
	case reflect.Int8:
		return r.Pick([]string{"0", "1", "-1", "127", "-128", "128", "-129", "300"})
	case reflect.Uint, reflect.Uint8, reflect.Uint16, reflect.Uint32, reflect.Uint64:
		return r.Pick([]string{"0", "1", "255", "65535", "65536", "18446744073709551615", "18446744073709551616", "-1", "256"})
	case reflect.Float32, reflect.Float64:
		return r.Pick([]string{"0", "1.5", "-2.25", "1e10", "1e-10", "3.4028235e38", "3.5e38", "1e400", "0.1", "-0", "100", "1E+2", "16777217"})
	case reflect.String:
		if r.P(25) {
			return `"` + strings.Repeat(r.Pick([]string{"abcdefghij", "<&>", "\u00e9", "\\n", "x"}), 500+r.Intn(9000)) + `"`
		}
		return g.R.Pick(stringLitsLocal)
	case reflect.Interface:
		return g.Value(2)
	case reflect.Pointer:
		if r.P(200) {
			return "null"
		}
		return GenFor(g, t.Elem(), depth)
	case reflect.Slice:
		if t.Elem().Kind() == reflect.Uint8 {
			if r.P(60) {
				// more than 4096 bytes once decoded (block boundaries of the base64 paths)
				n := 4097 + r.Intn(9000)
				raw := make([]byte, n)
				for i := range raw {
					raw[i] = byte(i*7 + n)
				}
				return `"` + base64.StdEncoding.EncodeToString(raw) + `"`
			}
			return r.Pick([]string{`""`, `"aGVsbG8="`, `"aGVsbG8"`, `"AA=="`, `"!!!"`, `"/+8="`, `"_-8="`, "null", `"aGVs\nbG8="`, `[1,2]`})
		}
		if r.P(100) {
			return "null"
		}
		fallthrough
	case reflect.Array:
		n := r.Intn(4)
		if t.Kind() == reflect.Array {
			n = t.Len() + r.Intn(3) - 1
			if n < 0 {
				n = 0
			}
		}
		if depth <= 0 {
			n = 0
		}
		parts := make([]string, n)
		for i := range parts {
			parts[i] = GenFor(g, t.Elem(), depth-1)
		}
		return "[" + strings.Join(parts, ",") + "]"
	case reflect.Map:
		if r.P(100) {
			return "null"
		}
		n := r.Intn(4)
		if depth <= 0 {
			n = 0
		}
		var parts []string
		seen := map[string]bool{}
		for i := 0; i < n; i++ {
			var k string
			switch t.Key().Kind() {
			case reflect.Int, reflect.Int8, reflect.Int64:
				k = r.Pick([]string{"1", "-2", "10", "2", "007", "x", "1.5", "9223372036854775808"})
			case reflect.Uint, reflect.Uint8:
				k = r.Pick([]string{"1", "2", "300", "-1"})
			default:
				k, _ = strconv.Unquote(g.Name())
			}
			if seen[k] && !r.P(50) {
				continue
			}
			seen[k] = true
			parts = append(parts, jsonQuote(k)+":"+GenFor(g, t.Elem(), depth-1))
		}
		return "{" + strings.Join(parts, ",") + "}"
	case reflect.Struct:
		fields := jsonFields(t, 0)
		var parts []string
		for _, f := range fields {
			if r.P(250) {
				continue
			}
			name := f.name
			if r.P(150) {
				name = caseVariant(r, name)
			}
			v := "null"
			if depth > 0 || f.typ.Kind() != reflect.Struct {
				v = GenFor(g, f.typ, depth-1)
			}
			if f.quoted && r.P(850) {
				switch f.typ.Kind() {
				case reflect.String:
					v = strconv.Quote(v)
				default:
					if !strings.HasPrefix(v, `"`) {
						v = `"` + v + `"`
					}
				}
			}
			parts = append(parts, jsonQuote(name)+":"+v)
			if r.P(30) { // duplicate member: the last one wins
				parts = append(parts, jsonQuote(name)+":"+GenFor(g, f.typ, depth-1))
			}
		}
		if r.P(150) {
			parts = append(parts, g.Name()+":"+g.Value(1)) // unknown member
		}
		if r.P(200) && len(parts) > 1 {
			i, j := r.Intn(len(parts)), r.Intn(len(parts))
			parts[i], parts[j] = parts[j], parts[i]
		}
		return "{" + strings.Join(parts, ",") + "}"
	}
	return g.Value(1)
}

var stringLitsLocal = []string{
	`""`, `"a"`, `"foo"`, `"<script>"`, `"a&b"`, `"<"`, "\" \"", `"\n"`, `"\\"`, `"\""`, `"😀"`, `"\ud800"`, `"\udc00\udc00"`, `"\ud83d\ude00\ude00"`, `"\ud800\ud800"`, `"é"`, `"\b\f"`, `"12"`, `"-3.5"`, `"true"`, `"null"`, `"\"7\""`, `"x\u0000y"`,
}

// jsonQuote writes a JSON string literal (strconv.Quote would use Go escapes such as \x7f).
func jsonQuote(k string) string {
	var sb strings.Builder
	sb.WriteByte('"')
	for _, r := range k {
		switch {
		case r == '"':
			sb.WriteString(`\"`)
		case r == '\\':
			sb.WriteString(`\\`)
		case r < 0x20:
			fmt.Fprintf(&sb, `\u%04x`, r)
		default:
			sb.WriteRune(r)
		}
	}
	sb.WriteByte('"')
	return sb.String()
}

func isTypedTarget(kind int) bool {
	switch kind {
	case TStruct, TMapStruct, TPtrStruct, TStatic, TMapIntKey, TArray3, TBytes, TUint64, TPtrPtrInt, TMapInt, TSliceInt, TTextMap:
		return true
	}
	return false
}

func describeType(t reflect.Type) string {
	s := t.String()
	if len(s) > 160 {
		s = s[:160] + "…"
	}
	return fmt.Sprintf("%s", s)
}

// ---------------------------------------------------------------------------
// Go values that no JSON text decodes to: typed nil pointers and pointers inside
// interfaces, empty-but-non-nil containers, struct values in interfaces, NaN.
// Applied (same seed, same traversal) to the value given to either codec.

var specialValues = []func() any{
	func() any { return (*int)(nil) },
	func() any { return (*In1)(nil) },
	func() any { return (*Flaky)(nil) },
	func() any { v := 5; return &v },
	func() any { return &In1{X: 1, Y: "y"} },
	func() any { return In1{X: 2} },
	func() any { return map[string]int(nil) },
	func() any { return []string(nil) },
	func() any { return map[string]any{} },
	func() any { return []any{} },
	func() any { return int8(-3) },
	func() any { return uint64(18446744073709551615) },
	func() any { return float32(1.5) },
	func() any { return "s<>& " },
	func() any { return []byte("hi") },
	func() any { return [2]bool{true, false} },
	func() any { return &Flaky{Got: `{"z":[1, 2]}`} },
	func() any { return FlakyText{S: "t&"} },
	func() any { v := any((*string)(nil)); return &v },
	func() any { return St6{Iface: (*int)(nil), Any: (*In1)(nil)} },
	func() any { return &St6{Iface: []int{}, Omit: &In1{}} },
	func() any { return map[int]any{2: nil, 10: (*int)(nil), -1: "x"} },
	func() any { return nanValue },
}

var nodeType = reflect.TypeOf(Node{})

var nanValue = func() float64 { var z float64; return z / z }()

// mutateValue rewrites parts of an addressable value in place.
func mutateValue(v reflect.Value, r *gen.R, depth int) {
	if depth > 6 || !v.IsValid() {
		return
	}
	switch v.Kind() {
	case reflect.Interface:
		if v.CanSet() && r.P(150) {
			v.Set(reflect.ValueOf(specialValues[r.Intn(len(specialValues))]()))
			return
		}
		if v.IsNil() {
			return
		}
		e := v.Elem()
		switch e.Kind() {
		case reflect.Map:
			if e.Type().Key().Kind() != reflect.String {
				return
			}
			keys := e.MapKeys()
			strs := make([]string, len(keys))
			for i, k := range keys {
				strs[i] = k.String()
			}
			sortStrings(strs)
			for _, k := range strs {
				kv := reflect.ValueOf(k).Convert(e.Type().Key())
				if e.Type().Elem().Kind() == reflect.Interface && r.P(120) {
					e.SetMapIndex(kv, reflect.ValueOf(specialValues[r.Intn(len(specialValues))]()))
					continue
				}
				// map elements are not addressable: mutate a copy and store it back
				cp := reflect.New(e.Type().Elem()).Elem()
				cp.Set(e.MapIndex(kv))
				mutateValue(cp, r, depth+1)
				e.SetMapIndex(kv, cp)
			}
		case reflect.Slice:
			for i := 0; i < e.Len() && i < 8; i++ {
				mutateValue(e.Index(i), r, depth+1)
			}
		}
	case reflect.Struct:
		if v.Type() == alType && v.CanAddr() {
			// along a (possibly >1000 levels deep) chain: pointers to the first field of enclosing structs
			last := v.Addr().Interface().(*Al)
			for a, n := last, 0; a != nil && n < 3000; a, n = a.Next, n+1 {
				if r.P(300) {
					a.PF = &a.First
				}
				last = a
			}
			if r.P(400) && last != v.Addr().Interface().(*Al) {
				last.F = nanValue // an unencodable leaf at the bottom of the chain
			}
			return
		}
		if v.Type() == nodeType && v.CanAddr() && r.P(60) {
			// a pointer cycle: both codecs must report it instead of recursing for ever
			n := v.Addr().Interface().(*Node)
			n.Next = n
			return
		}
		for i := 0; i < v.NumField(); i++ {
			if v.Type().Field(i).IsExported() {
				mutateValue(v.Field(i), r, depth+1)
			}
		}
	case reflect.Pointer:
		if v.IsNil() {
			if v.CanSet() && r.P(120) && v.Type() != flakyPtrType {
				v.Set(reflect.New(v.Type().Elem())) // non-nil pointer to a zero value: not "empty" for omitempty
			}
			return
		}
		mutateValue(v.Elem(), r, depth+1)
	case reflect.Slice:
		if v.IsNil() {
			if v.CanSet() && r.P(100) {
				v.Set(reflect.MakeSlice(v.Type(), 0, 0))
			}
			return
		}
		for i := 0; i < v.Len() && i < 8; i++ {
			mutateValue(v.Index(i), r, depth+1)
		}
	case reflect.Array:
		for i := 0; i < v.Len() && i < 8; i++ {
			mutateValue(v.Index(i), r, depth+1)
		}
	case reflect.Map:
		if v.IsNil() {
			if v.CanSet() && r.P(100) {
				v.Set(reflect.MakeMap(v.Type()))
			}
			return
		}
		if v.Type().Key().Kind() == reflect.String && v.Type().Elem().Kind() == reflect.Interface {
			// same treatment as a map inside an interface
			iv := reflect.New(reflect.TypeOf((*any)(nil)).Elem()).Elem()
			iv.Set(v)
			mutateValue(iv, r, depth+1)
		}
	case reflect.Float64, reflect.Float32:
		if v.CanSet() && r.P(15) {
			v.SetFloat(nanValue)
		}
	}
}

func sortStrings(s []string) {
	for i := 1; i < len(s); i++ {
		for j := i; j > 0 && s[j] < s[j-1]; j-- {
			s[j], s[j-1] = s[j-1], s[j]
		}
	}
}

// mutateSeed says whether (and how) the value built from a text is mutated: half of the type seeds.
func mutateSeed(text []byte, typeSeed uint64) (uint64, bool) {
	if typeSeed&8 == 0 {
		return 0, false
	}
	h := uint64(1469598103934665603)
	for _, c := range text {
		h = (h ^ uint64(c)) * 1099511628211
	}
	return h ^ typeSeed, true
}
