package sim

import (
	"bytes"
	"fmt"
	"strings"
	"time"
	"unsafe"

	"verif.local/simrt"
)

// ---------------------------------------------------------------------------
// buffers with canaries

const canaryLen = 24
const canaryByte = 0xA5

type sbuf struct {
	back []byte // text + canary zone
	view []byte // what the library is given
	snap []byte
}

func newSbuf(text []byte, spare bool) *sbuf {
	s := &sbuf{}
	if spare {
		s.back = make([]byte, len(text)+canaryLen)
		copy(s.back, text)
		for i := len(text); i < len(s.back); i++ {
			s.back[i] = canaryByte
		}
		s.view = s.back[:len(text)]
	} else {
		s.back = append(make([]byte, 0, len(text)), text...)
		s.view = s.back[:len(text):len(text)]
	}
	if text == nil {
		s.view = nil
	}
	s.snap = append([]byte(nil), s.back...)
	return s
}

// newSbufIn places text (plus canary zone) at the start of a reusable arena, growing it when needed.
func newSbufIn(arena *[]byte, text []byte) *sbuf {
	need := len(text) + canaryLen
	if cap(*arena) < need {
		*arena = make([]byte, need, need*2+64)
	}
	s := &sbuf{}
	s.back = (*arena)[:need]
	copy(s.back, text)
	for i := len(text); i < need; i++ {
		s.back[i] = canaryByte
	}
	s.view = s.back[:len(text)]
	if text == nil {
		s.view = nil
	}
	s.snap = append([]byte(nil), s.back...)
	return s
}

func (s *sbuf) intact() bool { return bytes.Equal(s.back, s.snap) }

func (s *sbuf) scribble() {
	for i := range s.back {
		s.back[i] = '#'
	}
}

// ---------------------------------------------------------------------------
// one call

type callArgs struct {
	a, b  []byte
	patch any
	opts  any // shared options object (nil: fresh per call)
}

// invoke performs the API call on a goroutine of its own, so that a call that exceeds its
// step budget (or whose recursion runs away) can be ended with runtime.Goexit: its deferred
// functions run, nothing in the library can swallow it, and unwinding is linear in the depth.
// The helper goroutine acts for the calling task (the baton is a property of the task, not of
// a goroutine); the only happens-before edges added are between a task and its own helper.
func invoke(api API, c *Call, args callArgs) Outcome {
	w := simrt.W
	if w == nil {
		return invokeDirect(api, c, args)
	}
	var o Outcome
	finished := false
	done := make(chan struct{})
	w.SetExitable(true)
	go func() {
		defer close(done)
		o = invokeDirect(api, c, args)
		finished = true
	}()
	<-done
	w.SetExitable(false)
	hung, steps := w.TookExit()
	if !finished {
		if !hung {
			return Outcome{Status: StPanic, PanicMsg: "the call's goroutine exited (runtime.Goexit in library code?)", PanicSite: "?"}
		}
		return Outcome{Status: StHang, PanicMsg: simrt.HangSentinel{Steps: steps}.Error()}
	}
	return o
}

// invokeDirect performs the API call and records everything observable about it.
func invokeDirect(api API, c *Call, args callArgs) (o Outcome) {
	defer func() {
		if r := recover(); r != nil {
			st, msg := hangOrPanic(r)
			o = Outcome{Status: st, PanicMsg: msg}
			if st == StPanic {
				o.PanicSite = panicSite()
			}
		}
	}()
	setOut := func(out []byte, err error) {
		o.OutNil = out == nil
		o.Out = append(Bytes(nil), out...)
		o.ret = out
		if err != nil {
			o.Status = StError
			o.ErrType = fmt.Sprintf("%T", err)
			o.ErrMsg = err.Error()
			o.ErrClass = api.ErrClass(err)
		}
	}
	switch c.Fn {
	case FnDecodePatch:
		p, err := api.DecodePatch(args.a)
		if err != nil {
			setOut(nil, err)
			if p != nil {
				o.Extra = "non-nil patch with error\n" + api.Describe(p, false)
			}
			return o
		}
		if c.Corrupt > 0 {
			p = api.CorruptPatch(p, c.Corrupt)
			o.Extra = api.Describe(p, false) // no accessor calls on a hand-assembled Patch: Apply is what is under test
			o.patch = p
			return o
		}
		o.Extra = api.Describe(p, true)
		o.patch = p
	case FnAccessors:
		o.Extra = api.Describe(args.patch, true)
	case FnApply, FnApplyIndent, FnApplyWithOptions, FnApplyIndentWithOptions:
		setOut(api.Apply(args.patch, c.Fn, args.a, c.Opts, args.opts, c.Indent))
	case FnMergePatch:
		setOut(api.MergePatch(args.a, args.b))
	case FnMergeMergePatches:
		setOut(api.MergeMergePatches(args.a, args.b))
	case FnCreateMergePatch:
		setOut(api.CreateMergePatch(args.a, args.b))
	case FnEqual:
		o.Bool = api.Equal(args.a, args.b)
	}
	return o
}

// ---------------------------------------------------------------------------
// pristine-world oracle

type pristinePair struct{ sorted, reversed *Outcome }

var pristineCache = map[string]pristinePair{}

// PristineEvals counts oracle executions (reported in evidence).
var PristineEvals int64

// curDefaults are the package defaults of the scenario being run (part of every call's descriptor).
var curDefaults struct {
	limit  int64
	negOff bool
}

func descKey(target string, c *Call, a, b, patchText []byte) string {
	var sb strings.Builder
	fmt.Fprintf(&sb, "%s|%d|%v|%q|%d|%d|%d|%d|%v|%d|", target, c.Fn, c.Opts, c.Indent, len(a), len(b), len(patchText), curDefaults.limit, curDefaults.negOff, c.Corrupt)
	sb.Write(a)
	sb.WriteByte(0)
	sb.Write(b)
	sb.WriteByte(0)
	sb.Write(patchText)
	if a == nil {
		sb.WriteString("|anil")
	}
	if b == nil {
		sb.WriteString("|bnil")
	}
	return sb.String()
}

func pristineOnce(api API, c *Call, a, b, patchText []byte, mapPolicy int, budget int64) *Outcome {
	w := simrt.NewWorld(simrt.Config{PoolPolicy: simrt.PoolFresh, MapPolicy: mapPolicy, Sched: simrt.SchedNone})
	simrt.Install(w)
	defer simrt.Uninstall()
	// "run alone" means alone in the process too: package-level state (caches, memo tables,
	// anything an edit may add) is put back to its initial value, so the oracle's answer is a
	// function of the call descriptor and not of what this worker happened to run before
	api.Reset()
	api.SetDefaults(curDefaults.limit, curDefaults.negOff)
	PristineEvals++
	cp := func(x []byte) []byte {
		if x == nil {
			return nil
		}
		return append(make([]byte, 0, len(x)), x...)
	}
	args := callArgs{a: cp(a), b: cp(b)}
	w.BeginCall(0, uint32(c.Fn), nil, budget)
	var o Outcome
	if usesSlot(c.Fn) {
		// a freshly decoded patch, decoded inside the same pristine world
		dc := Call{Fn: FnDecodePatch, Corrupt: c.Corrupt}
		d := invoke(api, &dc, callArgs{a: cp(patchText)})
		if d.patch == nil {
			o = Outcome{Status: StSkipped}
		} else {
			args.patch = d.patch
			o = invoke(api, c, args)
		}
	} else {
		o = invoke(api, c, args)
	}
	o.Steps = w.EndCall(o.Failed(), 0)
	o.patch = nil
	o.ret = nil
	return &o
}

// Alone runs f - any number of library calls - as one call of a fresh pristine world: package
// state put back, fresh pools, sorted map iteration, no scheduler.  Engines whose oracle uses the
// instrumented library outside the run under test (the command-line engine folds DecodePatch and
// Apply in process) go through it, so that whatever the library does - goroutines, channels,
// condition variables included - is simulated and deterministic there too, never left to the
// shims' behaviour outside a world.  It reports a panic of f (as its value) or a hang.
func Alone(api API, budget int64, f func()) (panicked any, hung bool) {
	w := simrt.NewWorld(simrt.Config{PoolPolicy: simrt.PoolFresh, MapPolicy: simrt.MapSorted, Sched: simrt.SchedNone})
	simrt.Install(w)
	defer simrt.Uninstall()
	api.Reset()
	api.SetDefaults(0, false)
	w.BeginCall(0, 0, nil, budget)
	finished := false
	done := make(chan struct{})
	w.SetExitable(true)
	go func() {
		defer close(done)
		defer func() {
			if r := recover(); r != nil {
				if st, _ := hangOrPanic(r); st == StHang || st == StDeadlock {
					hung = true
				} else {
					panicked = r
				}
				finished = true
			}
		}()
		f()
		finished = true
	}()
	<-done
	w.SetExitable(false)
	if h, _ := w.TookExit(); h || !finished {
		hung = true
	}
	w.EndCall(panicked != nil || hung, 0)
	return panicked, hung
}

func pristine(api API, c *Call, a, b, patchText []byte, budget int64) pristinePair {
	k := descKey(api.Name(), c, a, b, patchText)
	if p, ok := pristineCache[k]; ok {
		return p
	}
	if len(pristineCache) > 20000 {
		pristineCache = map[string]pristinePair{}
	}
	p := pristinePair{
		sorted:   pristineOnce(api, c, a, b, patchText, simrt.MapSorted, budget),
		reversed: pristineOnce(api, c, a, b, patchText, simrt.MapReversed, budget),
	}
	pristineCache[k] = p
	return p
}

// ---------------------------------------------------------------------------
// running a scenario

// RunResult is what one simulated run produced.
type RunResult struct {
	Violations []Violation
	TraceHash  uint64
	Stats      simrt.Stats
	Outcomes   [][]Outcome // [0] = prelude, [1+i] = task i
	Want       [][]*Outcome
	Probes     map[string]int64
	Calls      int
	Diverged   bool // strict replay ran off its tape
	RunCode    int
	RaceDelta  int
	Events     []simrt.Event
}

func (r *RunResult) probe(name string, n int64) {
	if n != 0 {
		r.Probes[name] += n
	}
}

// retained is a result slice the caller keeps after the call returned.
type retained struct {
	id   uint32
	fn   int
	ret  []byte
	snap []byte
	bad  bool
	// spared: the caller has appended into the spare capacity of the result (once, after a later call)
	spared bool
}

func overlaps(a, b []byte) bool {
	if cap(a) == 0 || cap(b) == 0 {
		return false
	}
	a, b = a[:cap(a)], b[:cap(b)]
	pa, pb := uintptr(unsafe.Pointer(&a[0])), uintptr(unsafe.Pointer(&b[0]))
	return pa < pb+uintptr(len(b)) && pb < pa+uintptr(len(a))
}

// checkRetained verifies that results handed out earlier still hold what they held
// when they were returned (a result must not alias state that later calls reuse).
func (ts *taskState) checkRetained(tname string, by string) {
	for i := range ts.kept {
		k := &ts.kept[i]
		if !k.bad && !bytes.Equal(k.ret, k.snap) {
			k.bad = true
			ts.viol = append(ts.viol, Violation{Class: "result-clobbered", Sig: sig("result-clobbered", tname, FnNames[k.fn]), CallID: k.id,
				Detail: fmt.Sprintf("the slice returned by call #%d %s held %q when it was returned and holds %q after %s: the result aliases memory that later calls reuse", k.id, FnNames[k.fn], k.snap, k.ret, by)})
		}
	}
}

// writeSpare: the caller owns a returned slice up to its capacity and, some time after it got
// it, appends to it in place. Nothing else may live in that spare capacity: not a pooled buffer
// another call is filling, not a later result.
func (ts *taskState) writeSpare() {
	for i := range ts.kept {
		k := &ts.kept[i]
		if k.spared {
			continue
		}
		k.spared = true
		if spare := k.ret[len(k.ret):cap(k.ret)]; len(spare) > 0 {
			for j := range spare {
				spare[j] = '#'
			}
			ts.probes["spare_capacity_written_later"]++
		}
	}
}

type taskState struct {
	kept     []retained
	slots    []any
	slotSrc  []int // buffer index a slot was decoded from (-1: empty)
	slotSnap []string
	slotUses []int
	viol     []Violation
	probes   map[string]int64
	out      []Outcome
	arena    [2][]byte // reusable input buffers of this task (Cfg.ReuseBuf)
}

type runner struct {
	api  API
	sc   *Scenario
	w    *simrt.World
	bufs []*sbuf
	res  *RunResult

	sharedOpts    map[Opts]any
	sharedOptSnap map[Opts]string
}

func usesOpts(fn int) bool { return fn == FnApplyWithOptions || fn == FnApplyIndentWithOptions }

const defaultBudget = 50_000_000

// AbortAt, when set, makes running scenarios stop between calls once the wall clock passes it
// (set by the minimiser around candidate executions; never during the search itself).
var AbortAt time.Time

func (sc *Scenario) budget() int64 {
	if sc.Cfg.Budget > 0 {
		return sc.Cfg.Budget
	}
	return defaultBudget
}

// budgetFor is the step budget of one call: a generous quadratic bound in the
// total size of its inputs (lazy re-parsing of nested containers is quadratic
// in the nesting depth by design of the library; that is slow, not a hang).
// Anything beyond it - an infinite loop, an exponential blow-up - is a hang.
func (sc *Scenario) budgetFor(inputBytes int) int64 {
	if sc.Cfg.Budget > 0 {
		return sc.Cfg.Budget
	}
	n := int64(inputBytes)
	b := int64(3_000_000) + 40*n*n
	if b > 4_000_000_000 {
		b = 4_000_000_000
	}
	return b
}

// planPristine walks the program order of one task (after the prelude) and
// returns the pristine outcome pair for each call.
func (rn *runner) planPristine(prelude, calls []Call, slotSrc []int) []pristinePair {
	out := make([]pristinePair, len(calls))
	for i := range calls {
		c := &calls[i]
		var a, b, pt []byte
		if c.A >= 0 && c.A < len(rn.sc.Bufs) {
			a = rn.sc.Bufs[c.A]
		}
		if usesB(c.Fn) && c.B >= 0 && c.B < len(rn.sc.Bufs) {
			b = rn.sc.Bufs[c.B]
		}
		if c.NilA {
			a = nil
		}
		if c.NilB {
			b = nil
		}
		if c.Fn == FnDecodePatch {
			if c.Slot >= 0 && c.Slot < len(slotSrc) {
				slotSrc[c.Slot] = c.A | c.Corrupt<<20
			}
		}
		if usesSlot(c.Fn) {
			if c.Slot < 0 || c.Slot >= len(slotSrc) || slotSrc[c.Slot] < 0 {
				out[i] = pristinePair{&Outcome{Status: StSkipped}, &Outcome{Status: StSkipped}}
				continue
			}
			pt = rn.sc.Bufs[slotSrc[c.Slot]&0xfffff]
			if c.Fn == FnAccessors {
				a = nil
			}
			if k := slotSrc[c.Slot] >> 20; k > 0 {
				// the pristine evaluation builds the same hand-assembled Patch
				cc := *c
				cc.Corrupt = k
				out[i] = pristine(rn.api, &cc, a, b, pt, rn.sc.budgetFor(len(a)+len(b)+len(pt)))
				out[i].sorted.handMade, out[i].reversed.handMade = true, true
				continue
			}
		}
		if !rn.api.Supports(c.Fn) {
			out[i] = pristinePair{&Outcome{Status: StSkipped}, &Outcome{Status: StSkipped}}
			continue
		}
		out[i] = pristine(rn.api, c, a, b, pt, rn.sc.budgetFor(len(a)+len(b)+len(pt)))
	}
	return out
}

func sig(parts ...string) string { return strings.Join(parts, "|") }

// execCalls runs a sequence of calls as the current task.
func (rn *runner) execCalls(ts *taskState, calls []Call, want []pristinePair) {
	sc := rn.sc
	w := rn.w
	tname := rn.api.Name()
	for i := range calls {
		c := &calls[i]
		fname := FnNames[c.Fn]
		if want[i].sorted.Status == StSkipped {
			ts.out = append(ts.out, Outcome{Status: StSkipped})
			continue
		}
		// arguments
		var args callArgs
		var pa, pb *sbuf
		arg := func(idx int, priv bool, pos int) ([]byte, *sbuf) {
			if idx < 0 || idx >= len(rn.bufs) {
				return nil, nil
			}
			if priv && sc.Cfg.ReuseBuf && sc.Bufs[idx] != nil {
				p := newSbufIn(&ts.arena[pos], sc.Bufs[idx])
				ts.probes["input_buffer_reused"]++
				return p.view, p
			}
			if priv {
				p := newSbuf(sc.Bufs[idx], sc.Cfg.SpareCap)
				return p.view, p
			}
			return rn.bufs[idx].view, nil
		}
		if c.Fn != FnAccessors && !c.NilA {
			args.a, pa = arg(c.A, c.PrivA, 0)
		}
		if usesB(c.Fn) && !c.NilB {
			args.b, pb = arg(c.B, c.PrivB, 1)
		}
		if usesSlot(c.Fn) {
			args.patch = ts.slots[c.Slot]
			if args.patch == nil {
				// decode failed in this run although the pristine decode succeeded: already reported there
				ts.out = append(ts.out, Outcome{Status: StSkipped})
				continue
			}
			ts.slotUses[c.Slot]++
			if ts.slotUses[c.Slot] > 1 {
				ts.probes["patch_reused"]++
			}
		}
		if c.ShareOpts && usesOpts(c.Fn) {
			if so := rn.sharedOpts[c.Opts]; so != nil {
				args.opts = so
				ts.probes["options_object_shared"]++
			}
		}
		var src *simrt.Source
		if sc.Replay {
			src = simrt.ReplaySource(c.Tape, c.Switches, sc.Lenient)
		} else {
			src = simrt.NewSource(simrt.Mix(sc.Seed, uint64(c.ID)))
		}
		insz := len(args.a) + len(args.b)
		if usesSlot(c.Fn) && ts.slotSrc[c.Slot] >= 0 {
			insz += len(sc.Bufs[ts.slotSrc[c.Slot]&0xfffff])
		}
		bud := sc.budgetFor(insz)
		w.BeginCall(c.ID, uint32(c.Fn), src, bud)
		o := invoke(rn.api, c, args)
		o.Steps = w.EndCall(o.Failed(), o.Digest())
		if pm := o.Steps * 1000 / bud; pm > ts.probes["max_budget_used_permille"] {
			ts.probes["max_budget_used_permille"] = pm
		}
		if !AbortAt.IsZero() && time.Now().After(AbortAt) {
			// minimisation time box: give up on this candidate (it then counts as "does not reproduce")
			ts.probes["run_aborted_by_time_box"]++
			ts.out = append(ts.out, o)
			return
		}
		if sc.Replay {
			if !sc.Lenient && (src.Exhausted > 0 || src.Clamped > 0) {
				ts.probes["replay_diverged"]++
			}
			if sc.Lenient {
				// strict re-recording of what was effectively decided
				c.Tape = src.EffTape
				c.Switches = src.EffSwitches
			}
		} else {
			c.Tape = src.Tape
			c.Switches = src.Switches
		}
		if c.Fn == FnDecodePatch && c.Slot >= 0 && c.Slot < len(ts.slots) {
			ts.slots[c.Slot] = o.patch
			ts.slotSrc[c.Slot] = c.A | c.Corrupt<<20
			ts.slotUses[c.Slot] = 0
			if o.patch != nil {
				ts.slotSnap[c.Slot] = rn.api.Snapshot(o.patch)
			}
		}
		o.patch = nil
		ts.writeSpare()
		// the caller keeps the returned slice (unless it is one of its own input buffers handed back)
		if len(o.ret) > 0 {
			alias := false
			for _, in := range [][]byte{args.a, args.b} {
				if overlaps(o.ret, in) {
					alias = true
				}
			}
			switch {
			case alias:
			case sc.Cfg.ScribbleResults:
				full := o.ret[:cap(o.ret)]
				for i := range full {
					full[i] = '#'
				}
				ts.probes["results_scribbled"]++
			default:
				ts.kept = append(ts.kept, retained{id: c.ID, fn: c.Fn, ret: o.ret, snap: o.Out})
			}
		}
		o.ret = nil
		ts.checkRetained(tname, fmt.Sprintf("call #%d %s", c.ID, fname))

		// oracle 1: outcome equals the pristine-world outcome
		if d := Compare(c.Fn, want[i].sorted, &o); d != "" {
			ts.viol = append(ts.viol, Violation{Class: "mismatch", Sig: sig("mismatch", tname, fname, d), CallID: c.ID,
				Detail: fmt.Sprintf("call #%d %s: in this run: %s; run alone: %s", c.ID, fname, o.Brief(), want[i].sorted.Brief())})
		}
		// oracle 2: inputs unchanged (private ones now, shared ones now and at the end)
		for _, p := range []*sbuf{pa, pb} {
			if p != nil && !p.intact() {
				ts.viol = append(ts.viol, Violation{Class: "input-modified", Sig: sig("input-modified", tname, fname), CallID: c.ID,
					Detail: fmt.Sprintf("call #%d %s wrote to an input slice (or beyond its length): %q -> %q", c.ID, fname, p.snap, p.back)})
			}
		}
		if !c.PrivA && c.Fn != FnAccessors && c.A >= 0 && c.A < len(rn.bufs) && !rn.bufs[c.A].intact() {
			ts.viol = append(ts.viol, Violation{Class: "input-modified", Sig: sig("input-modified", tname, fname), CallID: c.ID,
				Detail: fmt.Sprintf("call #%d %s: shared input buffer %d changed", c.ID, fname, c.A)})
		}
		if usesB(c.Fn) && !c.PrivB && c.B >= 0 && c.B < len(rn.bufs) && !rn.bufs[c.B].intact() {
			ts.viol = append(ts.viol, Violation{Class: "input-modified", Sig: sig("input-modified", tname, fname), CallID: c.ID,
				Detail: fmt.Sprintf("call #%d %s: shared input buffer %d changed", c.ID, fname, c.B)})
		}
		// oracle 3: the Patch is unchanged
		if usesSlot(c.Fn) {
			if s := rn.api.Snapshot(ts.slots[c.Slot]); s != ts.slotSnap[c.Slot] {
				ts.viol = append(ts.viol, Violation{Class: "patch-modified", Sig: sig("patch-modified", tname, fname), CallID: c.ID,
					Detail: fmt.Sprintf("call #%d %s changed the Patch value:\nbefore:\n%s\nafter:\n%s", c.ID, fname, ts.slotSnap[c.Slot], s)})
				ts.slotSnap[c.Slot] = s
			}
		}
		// a shared options object is an input like any other: it must read the same afterwards
		if args.opts != nil {
			if snap := rn.api.OptionsSnapshot(args.opts); snap != rn.sharedOptSnap[c.Opts] {
				ts.viol = append(ts.viol, Violation{Class: "options-modified", Sig: sig("options-modified", tname, fname), CallID: c.ID,
					Detail: fmt.Sprintf("call #%d %s changed the ApplyOptions value it was given (shared with other calls): %s -> %s", c.ID, fname, rn.sharedOptSnap[c.Opts], snap)})
			}
		}
		// caller reuses its private buffers
		if sc.Cfg.Scribble {
			for _, p := range []*sbuf{pa, pb} {
				if p != nil {
					p.scribble()
					ts.probes["scribbled"]++
				}
			}
		}
		if o.Status == StPanic {
			ts.probes["calls_panicked"]++
		}
		if o.Status == StError {
			ts.probes["calls_failed"]++
		}
		ts.out = append(ts.out, o)
	}
}

var warmCalls = []Call{
	{ID: 0xfff0, Fn: FnDecodePatch, A: 0, Slot: 0},
	{ID: 0xfff1, Fn: FnApply, A: 1, Slot: 0},
	{ID: 0xfff2, Fn: FnMergePatch, A: 1, B: 2},
	{ID: 0xfff3, Fn: FnCreateMergePatch, A: 1, B: 2},
	{ID: 0xfff4, Fn: FnEqual, A: 1, B: 2},
}
var warmBufs = [][]byte{[]byte(`[{"op":"add","path":"/w","value":[1,{"x":null}]}]`), []byte(`{"a":1,"b":{"c":[true]}}`), []byte(`{"a":2,"b":{"d":"s"}}`)}

func (rn *runner) warmup() {
	var slot any
	for i := range warmCalls {
		c := warmCalls[i]
		rn.w.BeginCall(c.ID, uint32(c.Fn), simrt.NewSource(0x5eed), 0)
		args := callArgs{a: append([]byte(nil), warmBufs[c.A]...), patch: slot}
		if usesB(c.Fn) {
			args.b = append([]byte(nil), warmBufs[c.B]...)
		}
		o := invoke(rn.api, &c, args)
		if c.Fn == FnDecodePatch {
			slot = o.patch
		}
		rn.w.EndCall(o.Failed(), 0)
		if c.Fn == FnDecodePatch && slot == nil {
			return
		}
	}
}

// Run executes one scenario in a fresh world and checks every oracle.
func Run(sc *Scenario) *RunResult {
	api := APIFor(sc.Target)
	res := &RunResult{Probes: map[string]int64{}}
	rn := &runner{api: api, sc: sc, res: res}
	curDefaults.limit, curDefaults.negOff = sc.Cfg.PkgLimit, sc.Cfg.PkgNegOff
	// (taken before the pristine evaluations: a call that starts goroutines of its own can race
	// with itself even when it is run alone)
	raceBefore := simrt.RaceErrors()

	// 1. pristine outcomes, before the world under test exists
	nslots := sc.NSlots
	if nslots < 1 {
		nslots = 1
	}
	baseSrc := make([]int, nslots)
	for i := range baseSrc {
		baseSrc[i] = -1
	}
	wantPre := rn.planPristine(nil, sc.Prelude, baseSrc)
	wantTasks := make([][]pristinePair, len(sc.Tasks))
	for t := range sc.Tasks {
		src := append([]int(nil), baseSrc...)
		wantTasks[t] = rn.planPristine(sc.Prelude, sc.Tasks[t], src)
	}
	tname := api.Name()
	chk := func(calls []Call, want []pristinePair) {
		for i := range calls {
			if d := Compare(calls[i].Fn, want[i].sorted, want[i].reversed); d != "" {
				res.Violations = append(res.Violations, Violation{Class: "order-dependent", Sig: sig("order-dependent", tname, FnNames[calls[i].Fn], d), CallID: calls[i].ID,
					Detail: fmt.Sprintf("call #%d %s run alone with sorted vs reversed map iteration order: %s vs %s", calls[i].ID, FnNames[calls[i].Fn], want[i].sorted.Brief(), want[i].reversed.Brief())})
			}
		}
	}
	chk(sc.Prelude, wantPre)
	for t := range sc.Tasks {
		chk(sc.Tasks[t], wantTasks[t])
	}

	// 2. the world under test
	cfg := simrt.Config{PoolPolicy: sc.Cfg.Pool, EvictPermille: sc.Cfg.Evict, MapPolicy: sc.Cfg.MapOrder, Sched: sc.Cfg.Sched,
		SwitchPermille: sc.Cfg.SwitchPm, ClassMask: sc.Cfg.ClassMask, PCTPoints: sc.Cfg.PCTPoints, StepBudget: sc.budget()}
	if sc.Replay && len(sc.Tasks) > 1 {
		cfg.Sched = simrt.SchedReplay
	}
	w := simrt.NewWorld(cfg)
	rn.w = w
	if sc.Replay && len(sc.Tasks) > 1 {
		w.SetReplayPicks(sc.Picks)
	}
	rn.bufs = make([]*sbuf, len(sc.Bufs))
	for i, b := range sc.Bufs {
		rn.bufs[i] = newSbuf(b, sc.Cfg.SpareCap)
	}
	// shared options objects: one per distinct value, built before any task exists
	rn.sharedOpts, rn.sharedOptSnap = map[Opts]any{}, map[Opts]string{}
	addShared := func(calls []Call) {
		for i := range calls {
			c := &calls[i]
			if c.ShareOpts && usesOpts(c.Fn) && rn.sharedOpts[c.Opts] == nil {
				if o := api.NewOptions(c.Opts); o != nil {
					rn.sharedOpts[c.Opts] = o
					rn.sharedOptSnap[c.Opts] = api.OptionsSnapshot(o)
				}
			}
		}
	}
	addShared(sc.Prelude)
	for t := range sc.Tasks {
		addShared(sc.Tasks[t])
	}
	simrt.Install(w)
	api.Reset()
	api.SetDefaults(sc.Cfg.PkgLimit, sc.Cfg.PkgNegOff)
	if sc.Cfg.Warm {
		rn.warmup()
	}

	newTS := func() *taskState {
		return &taskState{slots: make([]any, nslots), slotSrc: append([]int(nil), baseSrc...), slotSnap: make([]string, nslots), slotUses: make([]int, nslots), probes: map[string]int64{}}
	}
	pre := newTS()
	rn.execCalls(pre, sc.Prelude, wantPre)

	tss := make([]*taskState, len(sc.Tasks))
	for t := range sc.Tasks {
		ts := newTS()
		copy(ts.slots, pre.slots)
		copy(ts.slotSrc, pre.slotSrc)
		copy(ts.slotSnap, pre.slotSnap)
		tss[t] = ts
		calls, want := sc.Tasks[t], wantTasks[t]
		w.Spawn(func(*simrt.Task) { rn.execCalls(ts, calls, want) })
	}
	res.RunCode = w.Run(sc.Cfg.SchedSeed)
	if !sc.Replay || sc.Lenient {
		sc.Picks = w.Picks()
	}

	// 3. end-of-run checks
	for i, b := range rn.bufs {
		if !b.intact() {
			res.Violations = append(res.Violations, Violation{Class: "input-modified", Sig: sig("input-modified", tname, "end-of-run"),
				Detail: fmt.Sprintf("shared input buffer %d differs at the end of the run: %q -> %q", i, b.snap, b.back)})
		}
	}
	for s := 0; s < nslots; s++ {
		if pre.slots[s] != nil {
			if snap := api.Snapshot(pre.slots[s]); snap != pre.slotSnap[s] {
				res.Violations = append(res.Violations, Violation{Class: "patch-modified", Sig: sig("patch-modified", tname, "end-of-run"),
					Detail: fmt.Sprintf("shared Patch in slot %d differs at the end of the run:\nbefore:\n%s\nafter:\n%s", s, pre.slotSnap[s], snap)})
			}
		}
	}
	simrt.Uninstall()
	for _, v := range w.Violations() {
		res.Violations = append(res.Violations, Violation{Class: v.Class, Sig: sig(v.Class, tname), Detail: v.Detail})
	}
	all := append([]*taskState{pre}, tss...)
	for _, ts := range all {
		ts.checkRetained(tname, "the end of the run")
		res.Violations = append(res.Violations, ts.viol...)
		for k, v := range ts.probes {
			if strings.HasPrefix(k, "max_") {
				if v > res.Probes[k] {
					res.Probes[k] = v
				}
				continue
			}
			res.Probes[k] += v
		}
		res.Outcomes = append(res.Outcomes, ts.out)
		res.Calls += len(ts.out)
		if ts.probes["replay_diverged"] > 0 {
			res.Diverged = true
		}
	}
	res.Want = append(res.Want, sortedOf(wantPre))
	for t := range wantTasks {
		res.Want = append(res.Want, sortedOf(wantTasks[t]))
	}
	// panics / hangs anywhere (pristine or in-run) are C04's findings
	seen := map[string]bool{}
	addPH := func(c *Call, o *Outcome, where string) {
		var v Violation
		switch o.Status {
		case StPanic:
			v = Violation{Class: "panic", Sig: sig("panic", tname, o.PanicSite, classifyPanic(o.PanicMsg)), CallID: c.ID,
				Detail: fmt.Sprintf("call #%d %s panicked (%s): %s at %s", c.ID, FnNames[c.Fn], where, o.PanicMsg, o.PanicSite)}
		case StHang:
			v = Violation{Class: "hang", Sig: sig("hang", tname, FnNames[c.Fn]), CallID: c.ID,
				Detail: fmt.Sprintf("call #%d %s exceeded the step budget (%s): %s", c.ID, FnNames[c.Fn], where, o.PanicMsg)}
		case StDeadlock:
			v = Violation{Class: "deadlock", Sig: sig("deadlock", tname, FnNames[c.Fn]), CallID: c.ID,
				Detail: fmt.Sprintf("call #%d %s would block forever (%s)", c.ID, FnNames[c.Fn], where)}
		default:
			return
		}
		if !seen[v.Sig] {
			seen[v.Sig] = true
			res.Violations = append(res.Violations, v)
		}
	}
	walk := func(calls []Call, outs []Outcome, want []pristinePair) {
		for i := range calls {
			addPH(&calls[i], want[i].sorted, "run alone")
			addPH(&calls[i], want[i].reversed, "run alone, reversed map order")
			if i < len(outs) {
				addPH(&calls[i], &outs[i], "in the simulated run")
			}
		}
	}
	walk(sc.Prelude, pre.out, wantPre)
	for t := range sc.Tasks {
		walk(sc.Tasks[t], tss[t].out, wantTasks[t])
	}
	res.RaceDelta = simrt.RaceErrors() - raceBefore
	res.Stats = w.Stats
	res.TraceHash = w.TraceHash()
	res.Events = w.EventsTail(64)
	res.probe("pool_reuse", w.Stats.PoolReuse)
	res.probe("pool_reuse_after_failed_call", w.Stats.PoolReuseAfterFail)
	res.probe("pool_reuse_cross_kind", w.Stats.PoolReuseCrossKind)
	res.probe("pool_reuse_cross_task", w.Stats.PoolReuseCrossTask)
	res.probe("pool_evicted", w.Stats.PoolEvicted)
	res.probe("pool_leaked", w.Stats.PoolLeaked)
	res.probe("map_order_nontrivial", w.Stats.KeysNontrivial)
	res.probe("switches", w.Stats.Switches)
	res.probe("switches_in_flight", w.Stats.SwitchInCall)
	res.probe("wg_wait_blocked", w.Stats.WGWaitBlocked)
	res.probe("library_goroutines", w.Stats.ChildTasks)
	res.probe("chan_blocked", w.Stats.ChanBlocked)
	res.probe("library_goroutines_run_before_parent_continues", w.Stats.ChildAbove)
	res.probe("selects", w.Stats.Selects)
	res.probe("select_several_ready", w.Stats.SelectMultiReady)
	res.probe("select_handover", w.Stats.SelectHandover)
	res.probe("cond_waits", w.Stats.CondWaits)
	res.probe("hangs", w.Stats.Hangs)
	res.probe("deadlocks", w.Stats.Deadlocks)
	return res
}

func sortedOf(p []pristinePair) []*Outcome {
	out := make([]*Outcome, len(p))
	for i := range p {
		out[i] = p[i].sorted
	}
	return out
}
