package sim

import (
	"bytes"
	"encoding/json"
	"fmt"
	"os"
	"os/exec"
	"path/filepath"
	"regexp"
	"strings"
	"time"

	"verif.local/simrt"
)

// raceLog tails the GORACE log of this process.
type raceLog struct {
	path string
	off  int64
}

func newRaceLog() *raceLog {
	// GORACE="log_path=/x/race" makes the runtime write /x/race.<pid>
	env := os.Getenv("GORACE")
	for _, f := range strings.Fields(env) {
		if strings.HasPrefix(f, "log_path=") {
			return &raceLog{path: fmt.Sprintf("%s.%d", strings.TrimPrefix(f, "log_path="), os.Getpid())}
		}
	}
	return &raceLog{}
}

func (rl *raceLog) readNew() string {
	if rl.path == "" {
		return ""
	}
	f, err := os.Open(rl.path)
	if err != nil {
		return ""
	}
	defer f.Close()
	st, err := f.Stat()
	if err != nil || st.Size() <= rl.off {
		return ""
	}
	buf := make([]byte, st.Size()-rl.off)
	f.ReadAt(buf, rl.off)
	rl.off = st.Size()
	return string(buf)
}

var frameRe = regexp.MustCompile(`(?m)^  (\S+)\(\)\n      (\S+):(\d+)`)

// raceSignatures turns race reports into signatures: the two top frames that
// belong to the library or the standard library (simulator/harness frames are
// skipped; a report with no such frame is a machinery bug).
func raceSignatures(text, target string) (sigs []string, details []string, machinery []string) {
	reports := strings.Split(text, "WARNING: DATA RACE")
	for _, rep := range reports[1:] {
		if i := strings.Index(rep, "=================="); i >= 0 {
			rep = rep[:i]
		}
		// split into the stacks of the two accesses
		parts := regexp.MustCompile(`(?m)^(Previous )?(Read|Write|Atomic read|Atomic write|read|write)[^\n]* by [^\n]*:\n`).Split(rep, -1)
		var tops []string
		harnessSide := 0
		for _, st := range parts[1:] {
			if j := strings.Index(st, "\n\n"); j >= 0 {
				st = st[:j]
			}
			top := ""
			firstNonRuntime := true
			for _, m := range frameRe.FindAllStringSubmatch(st, -1) {
				fn := m[1]
				if strings.HasPrefix(fn, "runtime.") {
					continue
				}
				inHarness := strings.Contains(fn, "verif.local/simrt") || strings.Contains(fn, "/zzverif/")
				if firstNonRuntime {
					firstNonRuntime = false
					if inHarness {
						// the access itself happened in simulator or harness code: the harness
						// only ever touches memory a caller may touch (its own inputs, its Patch)
						top = "caller-side-access"
						harnessSide++
						break
					}
				}
				if inHarness {
					break // reached the harness: keep what we have
				}
				if !strings.Contains(fn, "github.com/evanphx/json-patch") {
					if top == "" {
						top = "std:" + fn // access inside the standard library on behalf of the library
					}
					continue
				}
				fn = strings.TrimPrefix(fn, "github.com/evanphx/json-patch/v5/internal/")
				fn = strings.TrimPrefix(fn, "github.com/evanphx/json-patch/")
				fn = strings.TrimPrefix(fn, "github.com/evanphx/")
				if k := strings.Index(fn, ".func"); k > 0 {
					fn = fn[:k]
				}
				top = fn
				break
			}
			if top != "" {
				tops = append(tops, top)
			}
			if len(tops) == 2 {
				break
			}
		}
		if len(tops) < 2 || harnessSide == 2 {
			// both accesses are in simulator/harness code (or the report could not be parsed)
			machinery = append(machinery, rep)
			continue
		}
		if len(tops) == 2 && tops[1] < tops[0] {
			tops[0], tops[1] = tops[1], tops[0]
		}
		sigs = append(sigs, sig("race", target, strings.Join(tops, "~")))
		d := rep
		if len(d) > 3000 {
			d = d[:3000] + "…"
		}
		details = append(details, "data race reported by the Go race detector:\n"+strings.TrimSpace(d))
	}
	return
}

// subprocessTest replays a candidate in a fresh process (needed for races: the
// detector reports each racing pair once per process).
func subprocessTest(p Params, sigWanted string) func(*Scenario) bool {
	return func(c *Scenario) bool {
		c.Replay, c.Lenient = true, true
		// re-record leniently in-process first so the file holds effective decisions
		Run(c)
		rf := &ReplayFile{Format: 1, Property: p.Prop, Engine: c.Engine, Scenario: c, Violation: Violation{Sig: sigWanted, Class: "race"}}
		b, _ := json.Marshal(rf)
		tmp := filepath.Join(p.OutDir, fmt.Sprintf("cand.%d.json", p.Worker))
		if os.WriteFile(tmp, b, 0o644) != nil {
			return false
		}
		defer os.Remove(tmp)
		cmd := exec.Command(p.SelfExe, "-mode", "replay", "-file", tmp)
		cmd.Env = append(os.Environ(), "GORACE=log_path="+filepath.Join(p.OutDir, fmt.Sprintf("candrace.%d", p.Worker))+" halt_on_error=0 exitcode=0")
		var out bytes.Buffer
		cmd.Stdout = &out
		err := cmd.Run()
		_ = err
		return strings.Contains(out.String(), "\nREPRODUCED property=")
	}
}

// addRaceViolations converts new race reports of this process into violations.
func addRaceViolations(rl *raceLog, sc *Scenario, r *RunResult) (machinery []string) {
	if r.RaceDelta <= 0 {
		return nil
	}
	// the runtime writes the report before RaceErrors changes, but flushes are not
	// synchronous with us on every platform: poll briefly
	text := ""
	for i := 0; i < 50; i++ {
		text += rl.readNew()
		if strings.Count(text, "WARNING: DATA RACE") >= r.RaceDelta {
			break
		}
		time.Sleep(2 * time.Millisecond)
	}
	sigs, details, mach := raceSignatures(text, sc.Target)
	for i, s := range sigs {
		r.Violations = append(r.Violations, Violation{Class: "race", Sig: s, Detail: details[i]})
	}
	if len(sigs) == 0 && len(mach) == 0 {
		r.Violations = append(r.Violations, Violation{Class: "race", Sig: sig("race", sc.Target, "unparsed"), Detail: fmt.Sprintf("the race detector reported %d race(s); report text unavailable", r.RaceDelta)})
	}
	return mach
}

// MachineryTrouble is set when something that must never happen in the harness happened (exit 2).
var MachineryTrouble []string

// RunConcWorker is the concurrent engine loop (C10; also used by C04 for a share of its budget).
func RunConcWorker(p Params) *Summary {
	start := time.Now()
	ws := newWorkerState(p)
	rl := newRaceLog()
	K := p.Schedules
	if K < 1 {
		K = 1
	}
	for i := int64(0); i < p.MaxRuns && time.Now().Before(p.Deadline); i++ {
		gi := int64(p.Worker) + i*int64(p.NWorkers)
		own := true
		if i%25 == 24 {
			gi = int64((p.Worker+1)%p.NWorkers) + (i-24)*int64(p.NWorkers)
			own = false
		}
		seed := RunSeed(p.VerifSeed, p.Prop, gi)
		target := pickTarget(p.Prop, seed)
		base, faults := GenConc(seed, p.Prop, target)

		// sequential pass: tasks one after the other, no pre-emption
		seq := base.Clone()
		seq.Cfg.Sched = simrt.SchedNone
		r0 := Run(seq)
		mach := addRaceViolations(rl, seq, r0)
		MachineryTrouble = append(MachineryTrouble, mach...)
		th := fmt.Sprintf("%016x", r0.TraceHash)
		total := r0.Stats.Yields
		if own {
			ws.sum.Scenarios++
			if ws.sum.FirstSeed == 0 {
				ws.sum.FirstSeed = seed
			}
			ws.sum.LastSeed = seed
			ws.account(seq, r0)
			for k, v := range faults {
				ws.sum.Faults[k] += v
			}
			ws.handleViolations(seq, r0, ws.concTest(p))
		}
		for k := 0; k < K; k++ {
			if k > 0 && time.Now().After(p.Deadline) {
				break
			}
			s := base.Clone()
			strat := ApplyStrategy(s, uint64(k), total)
			r := Run(s)
			mach := addRaceViolations(rl, s, r)
			MachineryTrouble = append(MachineryTrouble, mach...)
			if k == 0 {
				th += fmt.Sprintf("%016x", r.TraceHash)
			}
			if !own {
				continue
			}
			ws.account(s, r)
			ws.sum.Probes["strategy_"+strat]++
			if r.Stats.SwitchInCall > 0 {
				ws.sum.Nontrivial++
				ws.noteDistinct(r.TraceHash ^ s.ShapeHash())
				if len(ws.sum.Samples) < 3 && (i%5 == 2 || p.MaxRuns < 30) {
					ws.sum.Samples = append(ws.sum.Samples, Sample(s, r))
				}
			}
			ws.handleViolations(s, r, ws.concTest(p))
		}
		if i%25 == 0 || !own {
			ws.sum.TraceHashes[fmt.Sprint(gi)] = th
		}
	}
	return ws.finish(start)
}

func (ws *workerState) concTest(p Params) func(sig string) func(*Scenario) bool {
	return func(s string) func(*Scenario) bool {
		if strings.HasPrefix(s, "race|") {
			return subprocessTest(p, s)
		}
		return InProcessTest(s, nil)
	}
}
