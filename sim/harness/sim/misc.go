package sim

import (
	"encoding/json"
	"fmt"
	"os"
	"strings"
)

// DebugOne executes one global run index of the hist engine and renders its trace.
func DebugOne(prop, engine string, verifSeed uint64, index int64) string {
	seed := RunSeed(verifSeed, prop, index)
	target := pickTarget(prop, seed)
	var sb strings.Builder
	sc, _ := GenHist(seed, prop, target)
	if os.Getenv("VERIF_DUMP_SCENARIO") == "only" {
		sj, _ := json.Marshal(sc)
		return string(sj) + "\n"
	}
	r := Run(sc)
	fmt.Fprintf(&sb, "index=%d seed=%d target=%s trace=%016x calls=%d\n", index, seed, target, r.TraceHash, r.Calls)
	for ti, outs := range r.Outcomes {
		for i, o := range outs {
			fmt.Fprintf(&sb, " t%d c%d steps=%d digest=%08x %s\n", ti, i, o.Steps, o.Digest(), o.Brief())
		}
	}
	b, _ := json.Marshal(sc.Cfg)
	fmt.Fprintf(&sb, "cfg=%s stats=%+v\n", b, r.Stats)
	if os.Getenv("VERIF_DUMP_SCENARIO") != "" {
		sj, _ := json.MarshalIndent(sc, "", " ")
		fmt.Fprintf(&sb, "scenario=%s\n", sj)
	}
	return sb.String()
}

// OtherEngines lets the codec and cli engines (separate packages) register themselves.
var OtherEngines = map[string]func(Params) *Summary{}

// OtherReplays maps engine name -> replay function for replay files of that engine.
var OtherReplays = map[string]func(path, binDir string) (*ReplayFile, *ReplayResult, error){}

// RunOtherWorker dispatches to a registered engine.
func RunOtherWorker(p Params) *Summary {
	if f, ok := OtherEngines[p.Engine]; ok {
		return f(p)
	}
	return nil
}

// ReplayAny replays a file of any engine.
func ReplayAny(path, binDir string) (*ReplayFile, *ReplayResult, error) {
	b, err := os.ReadFile(path)
	if err != nil {
		return nil, nil, err
	}
	var head struct {
		Engine string `json:"engine"`
	}
	if err := json.Unmarshal(b, &head); err != nil {
		return nil, nil, err
	}
	if f, ok := OtherReplays[head.Engine]; ok {
		return f(path, binDir)
	}
	return Replay(path)
}

// OtherDumps lets the codec and cli engines provide a per-run trace dump.
var OtherDumps = map[string]func(verifSeed uint64, prop string, n int64, binDir string) string{}

// TraceDump executes run indices 0..n-1 of an engine and prints one trace hash per
// executed run; used by the determinism self-test, which diffs the dumps of many
// processes started with the same seed.
func TraceDump(prop, engine string, verifSeed uint64, n int64, schedules int, binDir string) string {
	if f, ok := OtherDumps[engine]; ok {
		return f(verifSeed, prop, n, binDir)
	}
	var sb strings.Builder
	for i := int64(0); i < n; i++ {
		seed := RunSeed(verifSeed, prop, i)
		target := pickTarget(prop, seed)
		switch engine {
		case "hist":
			sc, _ := GenHist(seed, prop, target)
			r := Run(sc)
			fmt.Fprintf(&sb, "%d %016x v=%d steps=%d\n", i, r.TraceHash, len(r.Violations), r.Stats.Steps)
		case "conc":
			base, _ := GenConc(seed, prop, target)
			seq := base.Clone()
			seq.Cfg.Sched = 0
			r0 := Run(seq)
			fmt.Fprintf(&sb, "%d seq %016x v=%d\n", i, r0.TraceHash, len(r0.Violations))
			for k := 0; k < schedules; k++ {
				s := base.Clone()
				ApplyStrategy(s, uint64(k), r0.Stats.Yields)
				r := Run(s)
				fmt.Fprintf(&sb, "%d s%d %016x v=%d sw=%d\n", i, k, r.TraceHash, len(r.Violations), r.Stats.Switches)
			}
		}
	}
	return sb.String()
}
