package sim

import (
	"time"

	"github.com/evanphx/json-patch/v5/zzverif/gen"
	"github.com/evanphx/json-patch/v5/zzverif/jr"
	"verif.local/simrt"
)

// HasSig reports whether a run shows a violation with the given signature.
func HasSig(vs []Violation, s string) bool {
	for _, v := range vs {
		if v.Sig == s {
			return true
		}
	}
	return false
}

// InProcessTest replays a candidate leniently in this process.
func InProcessTest(sigWanted string, extra func(*Scenario, *RunResult)) func(*Scenario) bool {
	return func(c *Scenario) bool {
		c.Replay, c.Lenient = true, true
		r := Run(c)
		if extra != nil {
			extra(c, r)
		}
		return HasSig(r.Violations, sigWanted)
	}
}

// Shrink minimises a failing scenario while test keeps returning true.  test may
// update the candidate in place (lenient replay re-records effective decisions).
func Shrink(sc *Scenario, test func(*Scenario) bool, deadline time.Time) (*Scenario, int) {
	best := sc.Clone()
	tries := 0
	try := func(c *Scenario) bool {
		if time.Now().After(deadline) {
			return false
		}
		tries++
		if test(c) {
			best = c
			return true
		}
		return false
	}
	// make sure the starting point fails under lenient replay at all
	if c := best.Clone(); !try(c) {
		return sc, tries
	}
	for round := 0; round < 6 && time.Now().Before(deadline); round++ {
		progress := false
		// drop tasks
		for t := len(best.Tasks) - 1; t >= 0 && len(best.Tasks) > 1; t-- {
			c := best.Clone()
			c.Tasks = append(c.Tasks[:t], c.Tasks[t+1:]...)
			c.Picks = nil
			if try(c) {
				progress = true
			}
		}
		// drop calls
		for t := len(best.Tasks) - 1; t >= 0; t-- {
			for i := len(best.Tasks[t]) - 1; i >= 0; i-- {
				if t >= len(best.Tasks) || i >= len(best.Tasks[t]) {
					continue
				}
				c := best.Clone()
				c.Tasks[t] = append(c.Tasks[t][:i], c.Tasks[t][i+1:]...)
				if try(c) {
					progress = true
				}
			}
		}
		for i := len(best.Prelude) - 1; i >= 0; i-- {
			c := best.Clone()
			c.Prelude = append(c.Prelude[:i], c.Prelude[i+1:]...)
			if try(c) {
				progress = true
			}
		}
		// simplest fault policies
		cfgTries := []func(*Cfg) bool{
			func(c *Cfg) bool { ch := c.Pool != simrt.PoolFresh; c.Pool = simrt.PoolFresh; return ch },
			func(c *Cfg) bool { ch := c.Pool != simrt.PoolLIFO; c.Pool = simrt.PoolLIFO; return ch },
			func(c *Cfg) bool { ch := c.Evict != 0; c.Evict = 0; return ch },
			func(c *Cfg) bool { ch := c.MapOrder != simrt.MapSorted; c.MapOrder = simrt.MapSorted; return ch },
			func(c *Cfg) bool { ch := c.MapOrder != simrt.MapReversed; c.MapOrder = simrt.MapReversed; return ch },
			func(c *Cfg) bool { ch := c.Scribble; c.Scribble = false; return ch },
			func(c *Cfg) bool { ch := c.SpareCap; c.SpareCap = false; return ch },
			func(c *Cfg) bool { ch := c.Warm; c.Warm = false; return ch },
			func(c *Cfg) bool { ch := c.ScribbleResults; c.ScribbleResults = false; return ch },
			func(c *Cfg) bool { ch := c.ReuseBuf; c.ReuseBuf = false; return ch },
			func(c *Cfg) bool { ch := c.PkgLimit != 0; c.PkgLimit = 0; return ch },
			func(c *Cfg) bool { ch := c.PkgNegOff; c.PkgNegOff = false; return ch },
		}
		for _, f := range cfgTries {
			c := best.Clone()
			if f(&c.Cfg) && try(c) {
				progress = true
			}
		}
		// arguments: shared instead of private, default options
		forCalls(best, func(t, i int) {
			c := best.Clone()
			cl := callAt(c, t, i)
			if cl == nil {
				return
			}
			if cl.PrivA || cl.PrivB {
				cl.PrivA, cl.PrivB = false, false
				if try(c) {
					progress = true
				}
			}
			c = best.Clone()
			cl = callAt(c, t, i)
			if cl != nil && (cl.Opts != Opts{} || cl.Indent != "") {
				cl.Opts, cl.Indent = Opts{}, ""
				if try(c) {
					progress = true
				}
			}
		})
		// buffer texts
		for bi := range best.Bufs {
			if !bufUsed(best, bi) {
				if len(best.Bufs[bi]) > 0 {
					best.Bufs[bi] = Bytes("")
				}
				continue
			}
			for pass := 0; pass < 4; pass++ {
				improved := false
				for _, cand := range textCandidates(best.Bufs[bi]) {
					if time.Now().After(deadline) {
						break
					}
					c := best.Clone()
					c.Bufs[bi] = Bytes(cand)
					if try(c) {
						improved, progress = true, true
						break
					}
				}
				if !improved {
					break
				}
			}
		}
		// schedule: drop pre-emptions
		forCalls(best, func(t, i int) {
			cl := callAt(best, t, i)
			if cl == nil {
				return
			}
			for k := len(cl.Switches) - 1; k >= 0; k-- {
				c := best.Clone()
				x := callAt(c, t, i)
				if k >= len(x.Switches) {
					continue
				}
				x.Switches = append(x.Switches[:k], x.Switches[k+1:]...)
				if try(c) {
					progress = true
				}
			}
		})
		// tapes: all-zero decisions
		forCalls(best, func(t, i int) {
			cl := callAt(best, t, i)
			if cl == nil || len(cl.Tape) == 0 {
				return
			}
			nz := false
			for _, v := range cl.Tape {
				if v != 0 {
					nz = true
				}
			}
			if !nz {
				return
			}
			c := best.Clone()
			callAt(c, t, i).Tape = nil
			if try(c) {
				progress = true
			}
		})
		if !progress {
			break
		}
	}
	return best, tries
}

func forCalls(sc *Scenario, f func(t, i int)) {
	for i := len(sc.Prelude) - 1; i >= 0; i-- {
		f(-1, i)
	}
	for t := len(sc.Tasks) - 1; t >= 0; t-- {
		for i := len(sc.Tasks[t]) - 1; i >= 0; i-- {
			f(t, i)
		}
	}
}

func callAt(sc *Scenario, t, i int) *Call {
	if t < 0 {
		if i < len(sc.Prelude) {
			return &sc.Prelude[i]
		}
		return nil
	}
	if t < len(sc.Tasks) && i < len(sc.Tasks[t]) {
		return &sc.Tasks[t][i]
	}
	return nil
}

func bufUsed(sc *Scenario, bi int) bool {
	used := false
	chk := func(c *Call) {
		if c.Fn != FnAccessors && c.A == bi {
			used = true
		}
		if usesB(c.Fn) && c.B == bi {
			used = true
		}
	}
	for i := range sc.Prelude {
		chk(&sc.Prelude[i])
	}
	for _, t := range sc.Tasks {
		for i := range t {
			chk(&t[i])
		}
	}
	return used
}

// textCandidates proposes smaller texts: JSON-aware reductions when the text
// parses, byte-chunk deletions otherwise.
// TextCandidates proposes smaller texts (exported for the other engines).
func TextCandidates(b []byte) []string { return textCandidates(b) }

func textCandidates(b []byte) []string {
	var out []string
	seen := map[string]bool{string(b): true}
	add := func(s string) {
		if !seen[s] && len(s) <= len(b) && len(out) < 80 {
			seen[s] = true
			out = append(out, s)
		}
	}
	if v, err := jr.Parse(b); err == nil {
		add(gen.Render(v)) // canonical spelling (drops whitespace)
		var nodes []*jr.Value
		var walk func(v *jr.Value)
		walk = func(v *jr.Value) {
			if len(nodes) > 200 {
				return
			}
			nodes = append(nodes, v)
			for _, e := range v.Arr {
				walk(e)
			}
			for _, e := range v.Vals {
				walk(e)
			}
		}
		walk(v)
		full := func() bool { return len(out) >= 80 }
		for _, n := range nodes {
			if full() {
				break
			}
			saved := *n
			// large containers: halves first (rendering the whole text once per child is quadratic)
			if n.K == jr.Arr && len(saved.Arr) > 8 {
				h := len(saved.Arr) / 2
				n.Arr = saved.Arr[:h]
				add(gen.Render(v))
				n.Arr = saved.Arr[h:]
				add(gen.Render(v))
				*n = saved
			}
			if n.K == jr.Obj && len(saved.Keys) > 8 {
				h := len(saved.Keys) / 2
				n.Keys, n.Vals = saved.Keys[:h], saved.Vals[:h]
				add(gen.Render(v))
				n.Keys, n.Vals = saved.Keys[h:], saved.Vals[h:]
				add(gen.Render(v))
				*n = saved
			}
			switch n.K {
			case jr.Arr:
				for i := range saved.Arr {
					if full() || i > 40 {
						break
					}
					n.Arr = append(append([]*jr.Value{}, saved.Arr[:i]...), saved.Arr[i+1:]...)
					add(gen.Render(v))
				}
				*n = saved
				for i, e := range saved.Arr { // hoist child
					if full() || i > 40 {
						break
					}
					*n = *e
					add(gen.Render(v))
					*n = saved
				}
			case jr.Obj:
				for i := range saved.Keys {
					if full() || i > 40 {
						break
					}
					n.Keys = append(append([]string{}, saved.Keys[:i]...), saved.Keys[i+1:]...)
					n.Vals = append(append([]*jr.Value{}, saved.Vals[:i]...), saved.Vals[i+1:]...)
					add(gen.Render(v))
				}
				*n = saved
				for i, e := range saved.Vals {
					if full() || i > 40 {
						break
					}
					*n = *e
					add(gen.Render(v))
					*n = saved
				}
			case jr.Str:
				if len(saved.Str) > 1 {
					n.Str = saved.Str[:len(saved.Str)/2]
					add(gen.Render(v))
					*n = saved
				}
			}
			if n.K != jr.Null {
				*n = jr.Value{K: jr.Null}
				add(gen.Render(v))
				*n = saved
			}
			if n.K == jr.Num && saved.Num != "0" {
				*n = jr.Value{K: jr.Num, Num: "0"}
				add(gen.Render(v))
				*n = saved
			}
		}
		return out
	}
	// malformed text: delete chunks
	n := len(b)
	for sz := n / 2; sz >= 1; sz /= 2 {
		for i := 0; i+sz <= n && len(out) < 80; i += sz {
			add(string(b[:i]) + string(b[i+sz:]))
		}
	}
	return out
}
