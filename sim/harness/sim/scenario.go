// Package sim holds the scenario model, the executor that drives the real
// library inside a simulated world, the pristine-world oracle and the engines
// for sequential histories (C09, C04) and concurrent schedules (C10).
package sim

import (
	"encoding/base64"
	"encoding/json"
	"hash/fnv"
	"unicode/utf8"

	"verif.local/simrt"
)

// Bytes is a byte string that serialises readably: a JSON string when it is
// valid UTF-8, {"b64": "..."} otherwise.
type Bytes []byte

func (b Bytes) MarshalJSON() ([]byte, error) {
	if utf8.Valid(b) {
		return json.Marshal(string(b))
	}
	return json.Marshal(map[string]string{"b64": base64.StdEncoding.EncodeToString(b)})
}

func (b *Bytes) UnmarshalJSON(data []byte) error {
	var s string
	if err := json.Unmarshal(data, &s); err == nil {
		*b = Bytes(s)
		return nil
	}
	var m map[string]string
	if err := json.Unmarshal(data, &m); err != nil {
		return err
	}
	raw, err := base64.StdEncoding.DecodeString(m["b64"])
	*b = raw
	return err
}

// API functions.
const (
	FnDecodePatch = iota
	FnApply
	FnApplyIndent
	FnApplyWithOptions
	FnApplyIndentWithOptions
	FnMergePatch
	FnMergeMergePatches
	FnCreateMergePatch
	FnEqual
	FnAccessors
	NumFns
)

var FnNames = []string{"DecodePatch", "Apply", "ApplyIndent", "ApplyWithOptions", "ApplyIndentWithOptions", "MergePatch", "MergeMergePatches", "CreateMergePatch", "Equal", "Accessors"}

func usesSlot(fn int) bool {
	return fn == FnApply || fn == FnApplyIndent || fn == FnApplyWithOptions || fn == FnApplyIndentWithOptions || fn == FnAccessors
}

func usesB(fn int) bool {
	return fn == FnMergePatch || fn == FnMergeMergePatches || fn == FnCreateMergePatch || fn == FnEqual
}

// Opts mirrors jsonpatch.ApplyOptions.
type Opts struct {
	Neg    bool  `json:"neg"`
	Limit  int64 `json:"limit"`
	Allow  bool  `json:"allow"`
	Ensure bool  `json:"ensure"`
	Escape bool  `json:"escape"`
}

// Call is one API call of a scenario.
type Call struct {
	ID     uint32 `json:"id"`
	Fn     int    `json:"fn"`
	Name   string `json:"name,omitempty"` // informational
	A      int    `json:"a"`              // buffer index (DecodePatch: patch text; Apply*: document; binary fns: first arg)
	B      int    `json:"b,omitempty"`
	Slot   int    `json:"slot,omitempty"` // patch slot written (DecodePatch) or read (Apply*, Accessors)
	Opts   Opts   `json:"opts"`
	Indent string `json:"indent,omitempty"`
	// Private arguments are passed as fresh copies (and scribbled afterwards when
	// the scenario says so); otherwise the shared buffer itself is passed.
	PrivA bool `json:"privA,omitempty"`
	PrivB bool `json:"privB,omitempty"`
	// NilA / NilB: the argument is a nil slice (not an empty one)
	NilA bool `json:"nilA,omitempty"`
	NilB bool `json:"nilB,omitempty"`
	// ShareOpts: the *ApplyOptions given to this call is one object per distinct option value,
	// built before the tasks start and shared by every call (of any task) that sets this flag -
	// the way a server keeps one options value.  Otherwise each call gets a fresh one.
	ShareOpts bool `json:"share_opts,omitempty"`
	// Corrupt (DecodePatch only, > 0): the caller does not use the decoded Patch as it is but a
	// hand-assembled copy in which one raw message (chosen by this number) is torn, emptied or nil -
	// Patch is an exported map type and callers do build values by hand.  C04 excludes such values.
	Corrupt int `json:"corrupt,omitempty"`

	// in-run decisions, recorded in generate mode and followed in replay mode
	Tape     []uint32       `json:"tape,omitempty"`
	Switches []simrt.Switch `json:"switches,omitempty"`
}

// Cfg is the per-run simulator configuration (swarm-drawn).
type Cfg struct {
	Pool     int  `json:"pool"`
	Evict    int  `json:"evict_permille"`
	MapOrder int  `json:"map_order"`
	Scribble bool `json:"scribble"` // overwrite private input buffers after each call
	// ReuseBuf: private arguments of successive calls of one task are written into the same memory
	// (one buffer per argument position), the way a server reuses its request buffer.
	ReuseBuf bool `json:"reuse_input_buffer,omitempty"`
	// ScribbleResults: the caller owns what a call returned and writes all over it (up to its
	// capacity) as soon as it has looked at it - a later call must not notice.
	ScribbleResults bool `json:"scribble_results,omitempty"`
	SpareCap        bool `json:"spare_cap"` // input slices have canary-filled spare capacity
	Warm            bool `json:"warm"`      // run the fixed warm-up before the scenario (else cold caches)

	Sched     int     `json:"sched"`
	SwitchPm  int     `json:"switch_permille,omitempty"`
	ClassMask int     `json:"class_mask,omitempty"`
	PCTPoints []int64 `json:"pct_points,omitempty"`
	SchedSeed uint64  `json:"sched_seed,omitempty"`
	Budget    int64   `json:"step_budget,omitempty"`

	// Package defaults as a program sets them once at start-up, before any call (the legacy
	// package has no other way to configure them): AccumulatedCopySizeLimit and, negated so that
	// the zero value is the package's own default, SupportNegativeIndices.
	PkgLimit  int64 `json:"pkg_copy_limit,omitempty"`
	PkgNegOff bool  `json:"pkg_negative_indices_off,omitempty"`

	// Intrude: probability (permille) that an interfering call uses the pool between a Put and
	// the caller's next instruction (single-task engines).
	Intrude int `json:"intrude_permille,omitempty"`
}

// Scenario is one explicit, replayable simulated run.
type Scenario struct {
	Format   int      `json:"format"`
	Property string   `json:"property"`
	Engine   string   `json:"engine"`
	Target   string   `json:"target"` // "v5" or "legacy"
	Seed     uint64   `json:"run_seed"`
	Cfg      Cfg      `json:"config"`
	Bufs     []Bytes  `json:"bufs"`
	NSlots   int      `json:"nslots"`
	Prelude  []Call   `json:"prelude,omitempty"` // executed by the main goroutine before tasks start
	Tasks    [][]Call `json:"tasks"`
	Picks    []int8   `json:"picks,omitempty"`
	Replay   bool     `json:"-"`
	Lenient  bool     `json:"-"`
}

// Clone deep-copies a scenario.
func (s *Scenario) Clone() *Scenario {
	c := *s
	c.Bufs = make([]Bytes, len(s.Bufs))
	for i, b := range s.Bufs {
		c.Bufs[i] = append(Bytes(nil), b...)
	}
	cp := func(cs []Call) []Call {
		out := make([]Call, len(cs))
		for i, x := range cs {
			out[i] = x
			out[i].Tape = append([]uint32(nil), x.Tape...)
			out[i].Switches = append([]simrt.Switch(nil), x.Switches...)
		}
		return out
	}
	c.Prelude = cp(s.Prelude)
	c.Tasks = make([][]Call, len(s.Tasks))
	for i, t := range s.Tasks {
		c.Tasks[i] = cp(t)
	}
	c.Picks = append([]int8(nil), s.Picks...)
	c.Cfg.PCTPoints = append([]int64(nil), s.Cfg.PCTPoints...)
	return &c
}

// NumCalls counts calls in prelude and tasks.
func (s *Scenario) NumCalls() int {
	n := len(s.Prelude)
	for _, t := range s.Tasks {
		n += len(t)
	}
	return n
}

// ShapeHash identifies the scenario up to in-run decisions (used to count
// distinct scenarios): calls, arguments, options and configuration.
func (s *Scenario) ShapeHash() uint64 {
	h := fnv.New64a()
	wr := func(b []byte) { h.Write(b); h.Write([]byte{0xfe}) }
	wi := func(v int64) {
		var b [8]byte
		for i := 0; i < 8; i++ {
			b[i] = byte(v >> (8 * i))
		}
		h.Write(b[:])
	}
	wr([]byte(s.Target))
	wi(int64(s.Cfg.Pool))
	wi(int64(s.Cfg.MapOrder))
	wi(int64(s.Cfg.Evict))
	wi(s.Cfg.PkgLimit)
	if s.Cfg.PkgNegOff {
		wi(1)
	}
	hc := func(c *Call) {
		wi(int64(c.Fn))
		if c.A >= 0 && c.A < len(s.Bufs) {
			wr(s.Bufs[c.A])
		}
		if usesB(c.Fn) && c.B >= 0 && c.B < len(s.Bufs) {
			wr(s.Bufs[c.B])
		}
		wi(int64(c.Slot))
		wi(int64(c.Corrupt))
		b := int64(0)
		for i, f := range []bool{c.Opts.Neg, c.Opts.Allow, c.Opts.Ensure, c.Opts.Escape, c.PrivA, c.PrivB, c.ShareOpts, c.NilA, c.NilB} {
			if f {
				b |= 1 << i
			}
		}
		wi(b)
		wi(c.Opts.Limit)
		wr([]byte(c.Indent))
	}
	for i := range s.Prelude {
		hc(&s.Prelude[i])
	}
	for _, t := range s.Tasks {
		wi(-1)
		for i := range t {
			hc(&t[i])
		}
	}
	return h.Sum64()
}
