package sim

import (
	"fmt"
	"strings"
	"time"

	"verif.local/simrt"
)

// History enumeration: every ordered triple of a fixed pool of call descriptors, executed as a
// three-call history (after decoding the patches it needs) and compared call by call with the
// pristine-world outcome.  The pool is chosen so that its members leave different things behind
// in process-wide state - pooled decoder/encoder/scanner states after success, failure and
// malformed input, lazily parsed nodes, padding under EnsurePathExistsOnAdd, indent strings of
// equal length, duplicate member names - and so that some of them observe such leftovers.
// "24 of 26 crash-consistency bugs reproduce with three or fewer operations": the same holds for
// history dependence, and a complete enumeration of short histories does not depend on luck.

type poolCall struct {
	fn      int
	a, b    string // texts (document / first argument, second argument)
	patch   string // patch text for Apply* / Accessors
	opts    Opts
	indent  string
	v5only  bool
	share   bool // the *ApplyOptions is the one object every call with these option values uses
	corrupt int  // > 0: the Patch is a hand-assembled copy with one raw message damaged (never under C04)
}

func ens(o Opts) Opts { o.Ensure = true; return o }

func histPoolFor(prop string) []poolCall {
	pool := histPool()
	if prop == "C04" {
		return pool // hand-assembled Patch values are outside C04's stated domain
	}
	val := `[{"op":"add","path":"/b","value":{"x":[1,2,3]}}]`
	return append(pool,
		poolCall{fn: FnApply, a: `{"name":"x"}`, patch: val, corrupt: 4},  // value with an invalid byte in the middle
		poolCall{fn: FnApply, a: `{"name":"x"}`, patch: val, corrupt: 10}, // value followed by garbage... (k%6 == 4 again: second shape)
		poolCall{fn: FnApply, a: `{"name":"x"}`, patch: val, corrupt: 2},  // empty value
	)
}

func histPool() []poolCall {
	d0 := `{"name":"x"}`
	d1 := `{"a":[1,2],"b":{"c":null},"":0}`
	d2 := ` {"a":[1,2] , "b":{"c":null},"":0}`
	pad := `[{"op":"add","path":"/slots/2/id","value":7}]`
	padTestObj := `[{"op":"add","path":"/slots/2/id","value":7},{"op":"test","path":"/slots/0","value":{"id":1}}]`
	padTestArr := `[{"op":"add","path":"/slots/2/id","value":7},{"op":"test","path":"/slots/1","value":[1]}]`
	padTestNull := `[{"op":"add","path":"/slots/2/id","value":7},{"op":"test","path":"/slots/0","value":null}]`
	padCopy := `[{"op":"add","path":"/a/5","value":[null]},{"op":"copy","from":"/a/3","path":"/z"},{"op":"move","from":"/a/4","path":"/a/3/x"}]`
	padQ := `[{"op":"add","path":"/q/1","value":true}]`
	ops := `[{"op":"copy","from":"/b","path":"/b2"},{"op":"add","path":"/b2/c","value":{"":[]}},{"op":"test","path":"/b/c","value":null},{"op":"remove","path":"/a/0"},{"op":"add","path":"/a/-","value":"<x>"}]`
	failTest := `[{"op":"replace","path":"/a/1","value":{"k":[ 1 ]}},{"op":"test","path":"/a/1","value":{"k":[2]}}]`
	testWs := `[{"op":"test","path":"/a","value":[ 1 , 2 ]},{"op":"add","path":"/n","value":null},{"op":"test","path":"/n","value":null}]`
	rootNull := `[{"op":"replace","path":"","value":null},{"op":"add","path":"/x","value":1}]`
	bad := `[{"op":"add","path":"/a"}]`
	lim := Opts{Limit: 24}
	deep14 := strings.Repeat(`{"n":`, 13) + `[1,{"z":null}]` + strings.Repeat("}", 13)
	return []poolCall{
		{fn: FnApplyWithOptions, a: d0, patch: pad, opts: ens(Opts{}), v5only: true},
		{fn: FnApplyWithOptions, a: d0, patch: padTestObj, opts: ens(Opts{}), v5only: true},
		{fn: FnApplyWithOptions, a: d0, patch: padTestArr, opts: ens(Opts{Escape: true}), v5only: true},
		{fn: FnApplyWithOptions, a: d0, patch: padTestNull, opts: ens(Opts{}), v5only: true},
		{fn: FnApplyWithOptions, a: d1, patch: padCopy, opts: ens(lim), v5only: true},
		{fn: FnApplyIndentWithOptions, a: `{}`, patch: padQ, opts: ens(Opts{Neg: true}), indent: " ", v5only: true},
		// one long-lived *ApplyOptions with a copy limit: a call that copies and then fails elsewhere,
		// and one whose copies fit the limit only if nothing was left over from another call
		{fn: FnApplyWithOptions, a: d1, patch: `[{"op":"copy","from":"/b","path":"/b2"},{"op":"test","path":"/nope","value":1}]`, opts: lim, share: true, v5only: true},
		{fn: FnApplyWithOptions, a: d1, patch: `[{"op":"copy","from":"/b","path":"/b2"},{"op":"copy","from":"/b","path":"/b3"}]`, opts: lim, share: true, v5only: true},
		{fn: FnApply, a: d1, patch: ops},
		{fn: FnApply, a: d2, patch: ops},
		{fn: FnApplyIndent, a: d1, patch: ops, indent: "  "},
		{fn: FnApplyIndent, a: d1, patch: ops, indent: "\t\t"},
		{fn: FnApplyIndent, a: d1, patch: testWs, indent: "\t"},
		// a result nested 14 levels, with two different indents
		{fn: FnApplyIndent, a: deep14, patch: `[{"op":"add","path":"/k","value":[]}]`, indent: " "},
		{fn: FnApplyIndent, a: deep14, patch: `[{"op":"add","path":"/k","value":[]}]`, indent: "\t\t\t"},
		{fn: FnApply, a: d1, patch: failTest},
		// the whole document replaced by a value of the patch, changed, and then copied from "" into
		// itself: whatever the root node shares with the Patch shows on the second application
		{fn: FnApply, a: d1, patch: `[{"op":"add","path":"","value":{"k":[1]}},{"op":"add","path":"/k/-","value":2},{"op":"copy","from":"","path":"/self"},{"op":"test","path":"/self/k/1","value":2}]`},
		{fn: FnApply, a: d1, patch: rootNull},
		{fn: FnApply, a: `{"a":`, patch: ops},
		// malformed texts of exactly the length of well-formed ones used above (a caller that reuses
		// its buffer presents them at the same address with the same length)
		{fn: FnApply, a: strings.Replace(d1, "]", "}", 1), patch: ops},
		{fn: FnDecodePatch, a: strings.Replace(pad, ":7", ";7", 1)},
		// a call that fails after an earlier operation replaced the root, and calls whose outcome
		// would change if anything of that discarded document were still around
		{fn: FnApply, a: d1, patch: `[{"op":"replace","path":"","value":{"secret":"s3cr3t","a":[9],"name":7}},{"op":"test","path":"/nope","value":1}]`},
		{fn: FnApply, a: d0, patch: `[{"op":"copy","from":"/b","path":"/leak"},{"op":"copy","from":"/secret","path":"/leak2"}]`},
		{fn: FnApply, a: d0, patch: `[{"op":"test","path":"/name","value":"x"},{"op":"test","path":"/a/1","value":2}]`},
		{fn: FnApply, a: `{"other":1}`, patch: `[{"op":"remove","path":"/name"}]`},
		{fn: FnAccessors, patch: testWs},
		{fn: FnDecodePatch, a: bad},
		{fn: FnDecodePatch, a: `[{"op":"add","path":"/a","value":1e400},{"op":"remove","path":null}]`},
		{fn: FnMergePatch, a: d1, b: `{"a":null,"b":{"c":1,"d":null},"":null}`},
		{fn: FnMergePatch, a: d1, b: `{"b":null,"a":null,"z":{"y":null,"y":1}}`},
		{fn: FnMergePatch, a: `null`, b: `{"x":1}`},
		{fn: FnMergePatch, a: `[1]`, b: `{"x":{"a":1,"a":null}}`},
		{fn: FnMergePatch, a: d1, b: `{`},
		// literal patches (a scalar, null) written with white space around them
		{fn: FnMergePatch, a: d1, b: "  7 "},
		{fn: FnMergeMergePatches, a: `{"a":1}`, b: " \n null"},
		{fn: FnMergeMergePatches, a: `{"a":{"b":null}}`, b: `{"a":{"c":null},"d":[null]}`},
		{fn: FnCreateMergePatch, a: d1, b: d0},
		{fn: FnCreateMergePatch, a: `{"a":[[1],2],"k":{"z":1,"y":2}}`, b: `{"a":[3,2],"k":{"y":2}}`},
		{fn: FnCreateMergePatch, a: `[{"a":1}]`, b: `[{"a":2},{"b":null}]`},
		{fn: FnCreateMergePatch, a: `"str"`, b: d0},
		// arrays of five documents: one diff fails in the middle (work an implementation may have
		// handed out and must not leave lying around), one succeeds
		{fn: FnCreateMergePatch, a: `[{"a":1},2,{"b":1},{"c":1},{"d":2}]`, b: `[{"a":2},{"x":1},{"b":2},{"c":3},{"d":1}]`},
		{fn: FnCreateMergePatch, a: `[{"a":1},{"e":1},{"b":5},{"c":6},{"d":7}]`, b: `[{"a":2},{"e":1},{"b":6,"n":null},{"c":7},{"d":[8]}]`},
		{fn: FnCreateMergePatch, a: d1, b: d2},
		{fn: FnEqual, a: d1, b: d2},
		{fn: FnEqual, a: ` 12`, b: `12`},
		{fn: FnEqual, a: `[null,{"a":[]}]`, b: `[null,{"a":[ ]}]`},
		{fn: FnEqual, a: `{"a":1}`, b: `[`},
	}
}

func tripleScenario(seed uint64, prop, target string, pool []poolCall, idx [3]int, item int) *Scenario {
	return tupleScenario(seed, prop, target, pool, idx[:], item)
}

func tupleScenario(seed uint64, prop, target string, pool []poolCall, idx []int, item int) *Scenario {
	sc := &Scenario{Format: 1, Property: prop, Engine: "hist3", Target: target, Seed: seed}
	sc.Cfg = Cfg{Pool: []int{simrt.PoolLIFO, simrt.PoolAdversarial, simrt.PoolFIFO}[item%3], MapOrder: item % simrt.NumMapPolicies, Warm: item%2 == 0, SpareCap: item%4 < 2, Scribble: item%8 >= 4, ScribbleResults: item%5 == 1, ReuseBuf: item%7 < 3}
	bufIdx := map[string]int{}
	buf := func(t string) int {
		if i, ok := bufIdx[t]; ok {
			return i
		}
		sc.Bufs = append(sc.Bufs, Bytes(t))
		bufIdx[t] = len(sc.Bufs) - 1
		return len(sc.Bufs) - 1
	}
	slotOf := map[string]int{}
	id := uint32(0)
	sc.Tasks = [][]Call{nil}
	for _, pi := range idx {
		pc := pool[pi]
		c := Call{Fn: pc.fn, Opts: pc.opts, Indent: pc.indent, PrivA: item%3 == 0, PrivB: item%5 == 0, ShareOpts: pc.share}
		if target == "legacy" {
			switch c.Fn {
			case FnApplyWithOptions:
				c.Fn = FnApply
			case FnApplyIndentWithOptions:
				c.Fn = FnApplyIndent
			}
		}
		if usesSlot(c.Fn) {
			skey := fmt.Sprintf("%d|%s", pc.corrupt, pc.patch)
			s, ok := slotOf[skey]
			if !ok {
				s = len(slotOf)
				slotOf[skey] = s
				id++
				sc.Prelude = append(sc.Prelude, Call{ID: id, Fn: FnDecodePatch, Name: "DecodePatch", A: buf(pc.patch), Slot: s, Corrupt: pc.corrupt})
			}
			c.Slot = s
		}
		if c.Fn != FnAccessors {
			c.A = buf(pc.a)
		}
		if usesB(c.Fn) {
			c.B = buf(pc.b)
		}
		id++
		c.ID = id
		c.Name = FnNames[c.Fn]
		sc.Tasks[0] = append(sc.Tasks[0], c)
	}
	sc.NSlots = len(slotOf)
	if sc.NSlots == 0 {
		sc.NSlots = 1
	}
	return sc
}

// runHistTriples executes this worker's share of the triple enumeration through exec.
func runHistTriples(p Params, prop string, mine func() bool, exec func(sc *Scenario, kind string), itemNo func() int) int {
	pool := histPoolFor(prop)
	seed := RunSeed(p.VerifSeed, prop+"-hist3", 0)
	n := 0
	for _, target := range []string{"v5", "legacy"} {
		for i := range pool {
			for j := range pool {
				for k := range pool {
					if !mine() {
						continue
					}
					exec(tripleScenario(seed, prop, target, pool, [3]int{i, j, k}, itemNo()), "history-triple")
					n++
				}
			}
		}
	}
	if p.Tier == "thorough" {
		// four-call histories over every second descriptor
		var sub []int
		for i := range pool {
			if i%2 == 0 {
				sub = append(sub, i)
			}
		}
		for _, target := range []string{"v5", "legacy"} {
			for _, i := range sub {
				for _, j := range sub {
					for _, k := range sub {
						for _, l := range sub {
							if !mine() {
								continue
							}
							exec(tupleScenario(seed, prop, target, pool, []int{i, j, k, l}, itemNo()), "history-quadruple")
							n++
						}
					}
				}
			}
		}
	}
	return n
}

// RunHistEnumWorker is the C09 phase that enumerates all three-call histories over the pool.
func RunHistEnumWorker(p Params) *Summary {
	start := time.Now()
	ws := newWorkerState(p)
	test := func(sig string) func(*Scenario) bool { return InProcessTest(sig, nil) }
	item := 0
	mine := func() bool {
		item++
		return (item-1)%p.NWorkers == p.Worker
	}
	complete := true
	exec := func(sc *Scenario, kind string) {
		if time.Now().After(p.Deadline) {
			complete = false
			return
		}
		r := Run(sc)
		ws.sum.Scenarios++
		ws.account(sc, r)
		ws.sum.Enum[kind]++
		if r.Stats.PoolReuse > 0 {
			ws.sum.Nontrivial++
			ws.noteDistinct(sc.ShapeHash())
		}
		if len(ws.sum.Samples) < 2 && item%4099 == 7 {
			ws.sum.Samples = append(ws.sum.Samples, Sample(sc, r))
		}
		ws.handleViolations(sc, r, test)
	}
	runHistTriples(p, p.Prop, mine, exec, func() int { return item })
	if complete {
		n := len(histPoolFor(p.Prop))
		ws.sum.Exhaustive = []string{fmt.Sprintf("every ordered triple of %d call descriptors (%d three-call histories per package) x {v5, legacy}, pool policy LIFO/adversarial/FIFO, all map orders", n, n*n*n)}
		if p.Tier == "thorough" {
			h := (n + 1) / 2
			ws.sum.Exhaustive = append(ws.sum.Exhaustive, fmt.Sprintf("every ordered quadruple of every second descriptor (%d four-call histories per package) x {v5, legacy}", h*h*h*h))
		}
	} else {
		ws.sum.Probes["enumeration_cut_short_by_deadline"]++
	}
	return ws.finish(start)
}
