package sim

import (
	"fmt"
	"strings"
	"time"

	"github.com/evanphx/json-patch/v5/zzverif/gen"
	"verif.local/simrt"
)

// The three enumerations of C04 (complete over their stated finite spaces in
// every run): (a) every proper prefix of K seeded valid texts (torn input),
// (b) every single-byte substitution from a fixed alphabet at every offset of
// the same texts, (c) every ordered pair from a pool of small values for the
// two-argument functions.  Each variant is fed to every entry point.

var substAlphabet = []byte("{}[],:\"\\0-n\x00\xff")

// insertAlphabet: bytes inserted (not substituted) at every offset - things that look like white
// space to some libraries but are not JSON white space, and a few structural bytes
var insertAlphabet = []string{"\v", "\f", "\x85", "\xa0", "\xc2\xa0", "\xef\xbb\xbf", "\x00", "\x1f", " ", ","}

var smallValues = []string{
	`null`, `[null]`, `{"a":null}`, `[]`, `{}`, `""`, `0`, `{`, `[`, `}`, `]`, ``, ` `, `true`, `"a"`, `[1]`, `[[null]]`, `{"a":[null]}`, `{"":null}`,
	`[null,null]`, `{"a":{}}`, `{"a":1}`, `[{}]`, `[{"a":null}]`, `1e400`, `-0`, `"\ud800"`, `{"a":1,"a":2}`, `[1,2]`, `{"b":null,"a":null}`,
	`nul`, `[nul]`, `{"a"}`, `{"a":}`, `[,]`, `"`, `\`, "\x00", `[1 2]`, ` [ ] `, "\xff",
}

func optsFromBits(b int) Opts {
	o := Opts{Neg: b&1 != 0, Allow: b&2 != 0, Ensure: b&4 != 0, Escape: b&8 != 0}
	switch (b >> 4) % 4 {
	case 1:
		o.Limit = 1
	case 2:
		o.Limit = 16
	case 3:
		o.Limit = 100000
	}
	return o
}

// variantScenario feeds variant v (role: 0 doc, 1 patch, 2 merge patch) to every entry point
// next to the valid texts of the triple.
func variantScenario(seed uint64, target string, doc, patch, merge, v string, item int) *Scenario {
	sc := &Scenario{Format: 1, Property: "C04", Engine: "enum", Target: target, Seed: seed, NSlots: 2}
	sc.Cfg = Cfg{Pool: []int{simrt.PoolLIFO, simrt.PoolAdversarial, simrt.PoolFresh, simrt.PoolFIFO}[item%4], MapOrder: item % simrt.NumMapPolicies, Warm: true, SpareCap: item%2 == 0}
	sc.Bufs = []Bytes{Bytes(doc), Bytes(patch), Bytes(merge), Bytes(v)}
	o := optsFromBits(item)
	id := uint32(0)
	add := func(c Call) {
		id++
		c.ID = id
		c.Name = FnNames[c.Fn]
		if target == "legacy" && (c.Fn == FnApplyWithOptions || c.Fn == FnApplyIndentWithOptions) {
			c.Fn = FnApply
			c.Name = FnNames[c.Fn]
		}
		sc.Tasks[0] = append(sc.Tasks[0], c)
	}
	sc.Tasks = [][]Call{nil}
	add(Call{Fn: FnDecodePatch, A: 3, Slot: 0})
	add(Call{Fn: FnApplyWithOptions, A: 0, Slot: 0, Opts: o})
	add(Call{Fn: FnApplyIndent, A: 0, Slot: 0, Indent: indents[item%len(indents)]})
	add(Call{Fn: FnDecodePatch, A: 1, Slot: 1})
	add(Call{Fn: FnApplyWithOptions, A: 3, Slot: 1, Opts: o})
	add(Call{Fn: FnApply, A: 3, Slot: 1})
	add(Call{Fn: FnApplyIndentWithOptions, A: 3, Slot: 0, Opts: o, Indent: " "})
	add(Call{Fn: FnMergePatch, A: 3, B: 2})
	add(Call{Fn: FnMergePatch, A: 0, B: 3})
	add(Call{Fn: FnMergeMergePatches, A: 3, B: 2})
	add(Call{Fn: FnMergeMergePatches, A: 2, B: 3})
	add(Call{Fn: FnCreateMergePatch, A: 3, B: 0})
	add(Call{Fn: FnCreateMergePatch, A: 0, B: 3})
	add(Call{Fn: FnEqual, A: 3, B: 0})
	add(Call{Fn: FnEqual, A: 0, B: 3})
	add(Call{Fn: FnEqual, A: 3, B: 3})
	return sc
}

func pairScenario(seed uint64, target string, a, b string, item int) *Scenario {
	sc := &Scenario{Format: 1, Property: "C04", Engine: "enum", Target: target, Seed: seed, NSlots: 2}
	sc.Cfg = Cfg{Pool: []int{simrt.PoolLIFO, simrt.PoolAdversarial}[item%2], MapOrder: item % simrt.NumMapPolicies, Warm: true}
	sc.Bufs = []Bytes{Bytes(a), Bytes(b)}
	o := optsFromBits(item)
	id := uint32(0)
	sc.Tasks = [][]Call{nil}
	add := func(c Call) {
		id++
		c.ID = id
		c.Name = FnNames[c.Fn]
		if target == "legacy" && (c.Fn == FnApplyWithOptions || c.Fn == FnApplyIndentWithOptions) {
			c.Fn = FnApply
			c.Name = FnNames[c.Fn]
		}
		sc.Tasks[0] = append(sc.Tasks[0], c)
	}
	if item%9 == 0 {
		// nil slices in every argument position (next to the ordinary pair)
		add(Call{Fn: FnEqual, A: 0, B: 1, NilA: true})
		add(Call{Fn: FnEqual, A: 0, B: 1, NilB: true})
		add(Call{Fn: FnMergePatch, A: 0, B: 1, NilA: true})
		add(Call{Fn: FnMergePatch, A: 0, B: 1, NilB: true})
		add(Call{Fn: FnMergeMergePatches, A: 0, B: 1, NilA: true, NilB: true})
		add(Call{Fn: FnCreateMergePatch, A: 0, B: 1, NilA: true})
		add(Call{Fn: FnCreateMergePatch, A: 0, B: 1, NilB: true})
		add(Call{Fn: FnDecodePatch, A: 0, Slot: 1, NilA: true})
	}
	add(Call{Fn: FnEqual, A: 0, B: 1})
	add(Call{Fn: FnMergePatch, A: 0, B: 1})
	add(Call{Fn: FnMergeMergePatches, A: 0, B: 1})
	add(Call{Fn: FnCreateMergePatch, A: 0, B: 1})
	// a as patch applied to b as document
	add(Call{Fn: FnDecodePatch, A: 0, Slot: 0})
	add(Call{Fn: FnApplyWithOptions, A: 1, Slot: 0, Opts: o})
	if item%9 == 0 {
		add(Call{Fn: FnApplyWithOptions, A: 1, Slot: 0, Opts: o, NilA: true})
	}
	return sc
}

// small operation templates whose value/path are filled from the pool: reaches
// "test value [null]", "replace ” null then add", root replacement etc.
func opPatchScenario(seed uint64, target string, val, doc string, item int) *Scenario {
	patches := []string{
		`[{"op":"test","path":"/a","value":` + val + `}]`,
		`[{"op":"test","path":"","value":` + val + `}]`,
		`[{"op":"replace","path":"","value":` + val + `},{"op":"add","path":"/-","value":1}]`,
		`[{"op":"replace","path":"","value":` + val + `},{"op":"add","path":"/a","value":1},{"op":"test","path":"/a","value":1}]`,
		`[{"op":"add","path":"","value":` + val + `},{"op":"remove","path":"/a"}]`,
		`[{"op":"add","path":"/a","value":` + val + `},{"op":"test","path":"/a","value":` + val + `},{"op":"copy","from":"/a","path":"/b"},{"op":"move","from":"/b","path":"/c"}]`,
		`[{"op":"replace","path":"/a","value":` + val + `},{"op":"test","path":"/a/0","value":null},{"op":"remove","path":"/a/0"}]`,
		`[{"op":"add","path":"/x/y/0/z","value":` + val + `}]`,
		`[{"op":"copy","from":"","path":"/a"},{"op":"test","path":"/a","value":` + val + `}]`,
		`[{"op":"replace","path":"","value":` + val + `},{"op":"replace","path":"","value":` + val + `},{"op":"test","path":"","value":` + val + `}]`,
	}
	sc := &Scenario{Format: 1, Property: "C04", Engine: "enum", Target: target, Seed: seed, NSlots: len(patches)}
	sc.Cfg = Cfg{Pool: simrt.PoolLIFO, MapOrder: item % simrt.NumMapPolicies, Warm: true}
	sc.Bufs = []Bytes{Bytes(doc)}
	sc.Tasks = [][]Call{nil}
	id := uint32(0)
	for i, p := range patches {
		sc.Bufs = append(sc.Bufs, Bytes(p))
		id++
		sc.Tasks[0] = append(sc.Tasks[0], Call{ID: id, Fn: FnDecodePatch, Name: "DecodePatch", A: 1 + i, Slot: i})
		id++
		fn := FnApplyWithOptions
		if target == "legacy" {
			fn = FnApply
		}
		sc.Tasks[0] = append(sc.Tasks[0], Call{ID: id, Fn: fn, Name: FnNames[fn], A: 0, Slot: i, Opts: optsFromBits(item + i)})
	}
	return sc
}

// (d) pointer algebra: every ordered pair of single operations whose path/from come from a
// small set of pointers built around the empty reference token ("", "/", "//", "/a/", "//a": the
// whole document versus the member named ""), on documents that have such members.
var algebraPointers = []string{"", "/", "//", "/a", "/a/", "//a", "/0", "/-"}
var algebraDocs = []string{`{"":1,"a":{"":2}}`, `[[1],{"":0}]`, `{"":{"":{}},"a":[{}]}`, `{}`, "\r\n\t {\"\":[1],\"a\":{\"\":2}}\r\n"}

func algebraOps() []string {
	var ops []string
	for _, p := range algebraPointers {
		q := fmt.Sprintf("%q", p)
		ops = append(ops, `{"op":"add","path":`+q+`,"value":{"":1}}`, `{"op":"remove","path":`+q+`}`, `{"op":"replace","path":`+q+`,"value":{"":1}}`, `{"op":"test","path":`+q+`,"value":1}`)
		for _, f := range algebraPointers {
			fq := fmt.Sprintf("%q", f)
			ops = append(ops, `{"op":"move","from":`+fq+`,"path":`+q+`}`, `{"op":"copy","from":`+fq+`,"path":`+q+`}`)
		}
	}
	return ops
}

func patchListScenario(seed uint64, target, doc string, patches []string, item int) *Scenario {
	sc := &Scenario{Format: 1, Property: "C04", Engine: "enum", Target: target, Seed: seed, NSlots: len(patches)}
	sc.Cfg = Cfg{Pool: simrt.PoolLIFO, MapOrder: item % simrt.NumMapPolicies, Warm: true}
	sc.Bufs = []Bytes{Bytes(doc)}
	sc.Tasks = [][]Call{nil}
	id := uint32(0)
	for i, p := range patches {
		sc.Bufs = append(sc.Bufs, Bytes(p))
		id++
		sc.Tasks[0] = append(sc.Tasks[0], Call{ID: id, Fn: FnDecodePatch, Name: "DecodePatch", A: 1 + i, Slot: i})
		id++
		fn := FnApplyWithOptions
		if target == "legacy" {
			fn = FnApply
		}
		sc.Tasks[0] = append(sc.Tasks[0], Call{ID: id, Fn: fn, Name: FnNames[fn], A: 0, Slot: i, Opts: optsFromBits(item + i)})
	}
	return sc
}

// RunEnumWorker executes this worker's share of the enumerations.
func RunEnumWorker(p Params) *Summary {
	start := time.Now()
	ws := newWorkerState(p)
	test := func(sig string) func(*Scenario) bool { return InProcessTest(sig, nil) }
	item := 0
	mine := func() bool {
		item++
		return (item-1)%p.NWorkers == p.Worker
	}
	complete := true
	exec := func(sc *Scenario, kind string) {
		if time.Now().After(p.Deadline) {
			complete = false
			return
		}
		r := Run(sc)
		ws.sum.Scenarios++
		ws.account(sc, r)
		ws.sum.Enum[kind]++
		ws.sum.Nontrivial++
		ws.noteDistinct(sc.ShapeHash())
		ws.sum.Faults["input_"+kind]++
		if len(ws.sum.Samples) < 2 && item%97 == 5 {
			ws.sum.Samples = append(ws.sum.Samples, Sample(sc, r))
		}
		ws.handleViolations(sc, r, test)
	}
	K := 2
	if p.Tier == "thorough" {
		K = 8
	}
	targets := []string{"v5", "legacy"}
	for k := 0; k < K; k++ {
		seed := RunSeed(p.VerifSeed, "C04-enum", int64(k))
		r := gen.NewR(seed)
		g := gen.New(r)
		g.MaxDepth = 2
		g.Awkward = k%2 == 1
		doc := g.Object(2)
		if k%3 == 2 {
			doc = g.Array(2)
		}
		if len(doc) > 90 {
			doc = `{"a":[1,null,{"b":"x"}],"c":null,"":{"d":1.0}}`
		}
		patch := g.Patch(doc, 3)
		if len(patch) > 160 || len(patch) < 10 {
			patch = `[{"op":"add","path":"/a/-","value":[null]},{"op":"copy","from":"/a","path":"/z"},{"op":"test","path":"/c","value":null}]`
		}
		merge := g.MergePatchFor(doc)
		if len(merge) > 90 {
			merge = `{"a":null,"c":{"x":[null]},"n":1e400}`
		}
		texts := []string{doc, patch, merge}
		for _, target := range targets {
			for _, t := range texts {
				// (a) torn: every proper prefix
				for n := 0; n < len(t); n++ {
					if mine() {
						exec(variantScenario(seed, target, doc, patch, merge, t[:n], item), "torn")
					}
				}
				// (b') every insertion of a byte sequence from insertAlphabet at every offset (incl. the end)
				for off := 0; off <= len(t); off++ {
					for _, ins := range insertAlphabet {
						if mine() {
							exec(variantScenario(seed, target, doc, patch, merge, t[:off]+ins+t[off:], item), "byte-insertion")
						}
					}
				}
				// (b) every single-byte substitution
				for off := 0; off < len(t); off++ {
					for _, sb := range substAlphabet {
						if t[off] == sb {
							continue
						}
						if mine() {
							b := []byte(t)
							b[off] = sb
							exec(variantScenario(seed, target, doc, patch, merge, string(b), item), "byte-substitution")
						}
					}
				}
			}
		}
	}
	// (c) ordered pairs of small values
	seed := RunSeed(p.VerifSeed, "C04-enum", 1000)
	for _, target := range targets {
		for _, a := range smallValues {
			for _, b := range smallValues {
				if mine() {
					exec(pairScenario(seed, target, a, b, item), "small-value-pair")
				}
			}
		}
		for _, v := range smallValues {
			for _, d := range []string{`{"a":[null]}`, `[null]`, `{"a":{"b":null}}`, `{}`, `[]`, `{"a":"x","b":1}`} {
				if mine() {
					exec(opPatchScenario(seed, target, v, d, item), "operation-template")
				}
			}
		}
	}
	// (d) pointer algebra: all ordered pairs of operations, 16 two-operation patches per scenario
	ops := algebraOps()
	for _, target := range targets {
		for _, d := range algebraDocs {
			var batch []string
			flush := func() {
				if len(batch) > 0 && mine() {
					exec(patchListScenario(seed, target, d, batch, item), "pointer-algebra-pair")
				}
				batch = nil
			}
			for _, a := range ops {
				for _, b := range ops {
					batch = append(batch, "["+a+","+b+"]")
					if len(batch) == 16 {
						flush()
					}
				}
			}
			flush()
			if p.Tier == "thorough" {
				// three operations: every ordered pair followed by each of a subset of third operations
				var third []string
				for i, o := range ops {
					if i%7 == 0 {
						third = append(third, o)
					}
				}
				for _, a := range ops {
					for _, b := range ops {
						for _, c := range third {
							batch = append(batch, "["+a+","+b+","+c+"]")
							if len(batch) == 16 {
								flush()
							}
						}
					}
				}
				flush()
			}
		}
	}
	// (h) value flow: an operation that puts a value somewhere (null, scalars, empty and nested
	// containers) followed by one that reads, copies, moves, tests, extends or removes it - under
	// every configuration of the copy-size limit and of negative indices (options in v5, the two
	// package variables in the legacy package, which the scenario sets before its calls)
	{
		vals := []string{`null`, `1`, `"s"`, `{}`, `[]`, `{"k":null}`, `[null]`, `{"k":[1,{"z":null}]}`}
		var firsts, seconds []string
		for _, v := range vals {
			firsts = append(firsts, `{"op":"add","path":"/x","value":`+v+`}`, `{"op":"replace","path":"/a","value":`+v+`}`, `{"op":"add","path":"/c/0","value":`+v+`}`)
		}
		for _, src := range []string{"/x", "/a", "/c/0"} {
			seconds = append(seconds,
				`{"op":"copy","from":"`+src+`","path":"/y"}`, `{"op":"move","from":"`+src+`","path":"/y"}`, `{"op":"copy","from":"`+src+`","path":"/c/-"}`,
				`{"op":"test","path":"`+src+`","value":null}`, `{"op":"test","path":"`+src+`","value":{"k":null}}`, `{"op":"remove","path":"`+src+`"}`,
				`{"op":"replace","path":"`+src+`","value":[1]}`, `{"op":"add","path":"`+src+`/k","value":1}`, `{"op":"copy","from":"/c","path":"`+src+`/k"}`, `{"op":"copy","from":"`+src+`","path":"`+src+`/k"}`)
		}
		doc := `{"a":{"b":1},"c":[1,2]}`
		cfgN := 0
		for _, target := range targets {
			for _, limit := range []int64{0, 1, 40} {
				for _, negOff := range []bool{false, true} {
					cfgN++
					var batch []string
					flush := func() {
						if len(batch) > 0 && mine() {
							sc := patchListScenario(seed, target, doc, batch, item)
							if target == "legacy" {
								sc.Cfg.PkgLimit, sc.Cfg.PkgNegOff = limit, negOff
							} else {
								for i := range sc.Tasks[0] {
									if c := &sc.Tasks[0][i]; c.Fn == FnApplyWithOptions {
										c.Opts = Opts{Limit: limit, Neg: !negOff, Escape: (cfgN+i)%2 == 0, Allow: i%4 == 1}
									}
								}
							}
							exec(sc, "value-flow-pair")
						}
						batch = nil
					}
					for _, a := range firsts {
						for _, b := range seconds {
							batch = append(batch, "["+a+","+b+"]")
							if len(batch) == 16 {
								flush()
							}
						}
					}
					flush()
				}
			}
		}
	}
	// (j) number spellings: every ordered pair of 27 spellings (equal values spelled differently,
	// values beyond float64, beyond int64, exponents beyond what big-number parsers accept) as the
	// same member of two objects and as the element of two arrays
	{
		nums := []string{"0", "-0", "0.0", "1", "1.0", "1e0", "10e-1", "1E+0", "100", "1e2", "0.1", "1e-1", "1e400", "1E400", "10e399", "-1e400", "1e-400",
			"1e1000001", "10e1000000", "1e-1000001", "9007199254740993", "9007199254740992.0", "123456789012345678901234567890", "1.7976931348623157e308", "4.9e-324", "1e19", "18446744073709551616"}
		for _, target := range targets {
			for _, x := range nums {
				for _, y := range nums {
					if mine() {
						exec(pairScenario(seed, target, `{"n":`+x+`,"k":[`+y+`]}`, `{"n":`+y+`,"k":[`+x+`]}`, item), "number-spelling-pair")
					}
				}
			}
		}
	}
	// (i) alias flow: every ordered pair of copy/move operations over six nested locations of a
	// small document - a node that ends up linked twice, below itself or moved away from under a
	// copy of it must still serialise, in both packages
	{
		locs := []string{"/a", "/a/x", "/b", "/b/c", "/a/y", "/b/c/d"}
		var one []string
		for _, op := range []string{"copy", "move"} {
			for _, from := range locs {
				for _, to := range locs {
					if from != to {
						one = append(one, `{"op":"`+op+`","from":"`+from+`","path":"`+to+`"}`)
					}
				}
			}
		}
		for _, target := range targets {
			for _, doc := range []string{`{"a":{"x":{"k":1}},"b":{"c":{}}}`, `{"a":{"x":[1]},"b":{}}`} {
				var batch []string
				flush := func() {
					if len(batch) > 0 && mine() {
						exec(patchListScenario(seed, target, doc, batch, item), "alias-flow-pair")
					}
					batch = nil
				}
				for _, a := range one {
					for _, b := range one {
						batch = append(batch, "["+a+","+b+"]")
						if len(batch) == 32 {
							flush()
						}
					}
				}
				flush()
			}
		}
	}
	// (g) extreme and oddly spelled array indices (never with EnsurePathExistsOnAdd, whose padding is
	// outside the stated domain above 10^4), and strings that end in runs of malformed UTF-8
	{
		idx := []string{"-9223372036854775808", "9223372036854775807", "-9223372036854775809", "9223372036854775808", "18446744073709551616", "4294967296", "-4294967296", "2147483648", "-2147483649",
			"-0", "00", "01", "+1", "1e2", "1.0", " 1", "1 ", "0x1", "\uff11", "-", "--1", "-1", "-2", "-3"}
		docs := []string{`[1,2]`, `{"a":[1,[2,3]],"b":[]}`}
		for _, target := range targets {
			for di, d := range docs {
				base := ""
				if di == 1 {
					base = "/a"
				}
				var batch []string
				for _, ix := range idx {
					p := fmt.Sprintf("%q", base+"/"+ix)
					q := fmt.Sprintf("%q", base+"/1/"+ix)
					batch = append(batch,
						`[{"op":"add","path":`+p+`,"value":9}]`, `[{"op":"remove","path":`+p+`}]`, `[{"op":"replace","path":`+p+`,"value":9}]`, `[{"op":"test","path":`+p+`,"value":1}]`,
						`[{"op":"move","from":`+p+`,"path":"`+base+`/0"}]`, `[{"op":"copy","from":"`+base+`/0","path":`+p+`}]`, `[{"op":"add","path":`+q+`,"value":9}]`, `[{"op":"remove","path":`+q+`}]`)
				}
				for i := 0; i < len(batch); i += 16 {
					j := i + 16
					if j > len(batch) {
						j = len(batch)
					}
					for _, neg := range []bool{true, false} {
						if mine() {
							sc := patchListScenario(seed, target, d, batch[i:j], item)
							for k := range sc.Tasks[0] {
								if c := &sc.Tasks[0][k]; usesOpts(c.Fn) {
									c.Opts = Opts{Neg: neg, Allow: item%2 == 0}
								}
							}
							sc.Cfg.PkgNegOff = !neg
							exec(sc, "extreme-index")
						}
					}
				}
			}
		}
		var bad []string
		for _, b := range []string{"\xff", "\x80", "\xc0\xaf", "\xed\xa0\x80", "\xf4\x90"} {
			for _, n := range []int{1, 2, 3, 4, 5, 6, 7, 8, 13, 25, 26, 27, 28, 29, 64} {
				run := strings.Repeat(b, n)
				bad = append(bad, `{"`+run+`":1}`, `{"k":"ab`+run+`"}`, `["`+run+`x"]`)
				if n <= 13 || n == 32 {
					// a long well-formed tail after the run (the output outgrows the input by two bytes
					// per malformed byte: room that is reserved once must last for the whole tail)
					for _, tl := range []int{9, 40, 300} {
						bad = append(bad, `{"k":"`+run+strings.Repeat("t", tl)+`"}`, `{"`+run+strings.Repeat("k", tl)+`":"`+strings.Repeat("v", tl)+`"}`)
					}
				}
				if n <= 13 {
					// a well-formed multi-byte rune right after the run (2, 3 and 4 bytes), with 0-2 bytes to follow
					for _, tail := range []string{"\u00e9", "\u20ac", "\U0001F600", "\U0001F600a", "\U0001F600ab", "\u20acz"} {
						bad = append(bad, `{"k":"`+run+tail+`"}`)
					}
				}
			}
		}
		for _, target := range targets {
			for i := 0; i < len(bad); i++ {
				if mine() {
					exec(pairScenario(seed, target, bad[i], bad[(i+7)%len(bad)], item), "malformed-utf8-run")
				}
				if mine() {
					exec(variantScenario(seed, target, `{"k":1}`, `[{"op":"add","path":"/k","value":2}]`, `{"k":null}`, bad[i], item), "malformed-utf8-run")
				}
			}
		}
	}
	// (f) compositions near the nesting limit: the scanner accepts 10^4 levels, and copy/move/add can
	// put a deep subtree at a deep position, so that what is serialised into ONE raw value (by copy)
	// or into the result exceeds what the decoder will read back
	for _, target := range targets {
		for _, obj := range []bool{false, true} {
			const D = 9000
			open, close, step := "[", "]", "/0"
			if obj {
				open, close, step = `{"a":`, "}", "/a"
			}
			doc := strings.Repeat(open, D) + "1" + strings.Repeat(close, D)
			at := func(n int) string { return strings.Repeat(step, n) }
			tail := "/-"
			if obj {
				tail = "/z"
			}
			into := func(n int) string { return at(n) + tail }
			through := func(n int) string { // a path through what was appended at depth n
				if obj {
					return at(n) + "/z" + at(3)
				}
				return at(n) + "/1" + at(3)
			}
			var patches []string
			for _, d1 := range []int{1500, 20} {
				for _, d2 := range []int{1200, 10} {
					a := fmt.Sprintf(`{"op":"copy","from":%q,"path":%q}`, step, into(d1))
					b := fmt.Sprintf(`{"op":"copy","from":%q,"path":%q}`, step, into(d2))
					for _, c := range []string{
						"",
						fmt.Sprintf(`,{"op":"add","path":%q,"value":1}`, through(d2)+tail),
						fmt.Sprintf(`,{"op":"test","path":%q,"value":1}`, through(d2)),
						fmt.Sprintf(`,{"op":"remove","path":%q}`, through(d2)),
						fmt.Sprintf(`,{"op":"copy","from":%q,"path":%q}`, through(d2), tail),
						fmt.Sprintf(`,{"op":"move","from":%q,"path":%q}`, at(2), into(d2+5)),
					} {
						patches = append(patches, "["+a+","+b+c+"]")
					}
				}
			}
			for i := 0; i < len(patches); i += 2 {
				if mine() {
					sc := patchListScenario(seed, target, doc, patches[i:i+2], item)
					for k := range sc.Tasks[0] {
						// plain Apply: no copy-size limit stops the composition early
						if c := &sc.Tasks[0][k]; c.Fn == FnApplyWithOptions {
							c.Fn, c.Name, c.Opts = FnApply, FnNames[FnApply], Opts{}
						}
					}
					exec(sc, "near-limit-nesting")
				}
			}
		}
	}
	// (e) every three-call history over the fixed pool of call descriptors
	nTriples := len(histPool())
	runHistTriples(p, "C04", mine, exec, func() int { return item })
	if complete {
		ws.sum.Exhaustive = []string{
			fmt.Sprintf("every ordered triple of %d call descriptors as a three-call history x {v5, legacy}", nTriples),
			fmt.Sprintf("torn input: every proper prefix of %d seeded (document, patch, merge patch) triples x every entry point x {v5, legacy}", K),
			"insertion of \\v \\f 0x85 0xA0 U+00A0 BOM NUL 0x1F space comma at every offset of the same texts x every entry point x {v5, legacy}",
			"single-byte substitution from {}[],:\"\\0-n NUL 0xFF at every offset of the same texts x every entry point x {v5, legacy}",
			fmt.Sprintf("every ordered pair of %d small values x two-argument functions and DecodePatch/Apply x {v5, legacy}", len(smallValues)),
			"10 operation templates x every small value x 6 documents x {v5, legacy}",
			"24 extreme or oddly spelled array indices x 8 operation shapes x 2 documents x negative indices on/off x {v5, legacy}; ~500 texts with runs of 1-64 malformed UTF-8 sequences (some followed by a 2-, 3- or 4-byte rune) in names and strings x every entry point",
			"near-limit nesting: documents nested 9000 deep (arrays, objects) x two copies of the deep subtree into positions at depth {1500,20} x {1200,10} x {no, add, test, remove, copy, move} as a third operation through the result x {v5, legacy}",
			map[bool]string{true: "pointer algebra, three operations: every ordered pair followed by each of every 7th operation as a third (thorough tier)", false: "pointer algebra with a third operation: thorough tier only"}[p.Tier == "thorough"],
			fmt.Sprintf("pointer algebra: every ordered pair of %d single operations (add/remove/replace/test/move/copy with path and from drawn from %d pointers around the empty reference token) x %d documents x {v5, legacy}", len(ops), len(algebraPointers), len(algebraDocs)),
		}
	} else {
		ws.sum.Probes["enumeration_cut_short_by_deadline"]++
	}
	return ws.finish(start)
}
