package sim

import (
	"encoding/binary"
	"encoding/json"
	"fmt"
	"hash/fnv"
	"os"
	"path/filepath"
	"sort"
	"strings"
	"sync/atomic"
	"time"

	"verif.local/simrt"
)

// Counts says which violation classes decide which property.
func Counts(prop, class string) bool {
	switch prop {
	case "C04":
		return class == "panic" || class == "hang" || class == "deadlock" || class == "task-panic"
	case "C09":
		switch class {
		case "mismatch", "order-dependent", "input-modified", "patch-modified", "pool-double-put", "result-clobbered":
			return true
		}
	case "C10":
		switch class {
		case "mismatch", "race", "deadlock", "input-modified", "patch-modified", "pool-double-put", "task-panic", "result-clobbered":
			return true
		}
	}
	return false
}

// VioRecord aggregates one violation signature inside a worker.
type VioRecord struct {
	Sig         string `json:"signature"`
	Class       string `json:"class"`
	Detail      string `json:"detail"`
	Count       int64  `json:"count"`
	FirstSeed   uint64 `json:"first_run_seed"`
	ReplayFile  string `json:"replay_file"`
	Calls       int    `json:"calls_in_replay"`
	ShrinkTries int    `json:"shrink_tries"`
}

// Summary is what a worker reports to the driver.
type Summary struct {
	Property    string            `json:"property"`
	Engine      string            `json:"engine"`
	Worker      int               `json:"worker"`
	Race        bool              `json:"race_build"`
	Runs        int64             `json:"runs"`
	Scenarios   int64             `json:"scenarios"`
	Calls       int64             `json:"calls"`
	Pristine    int64             `json:"pristine_evals"`
	Steps       int64             `json:"sim_steps"`
	Yields      int64             `json:"yields"`
	WallS       float64           `json:"wall_s"`
	Nontrivial  int64             `json:"nontrivial_runs"`
	Faults      map[string]int64  `json:"faults_fired"`
	Probes      map[string]int64  `json:"probes"`
	OutClasses  map[string]int64  `json:"outcome_classes"`
	PerTarget   map[string]int64  `json:"runs_per_target"`
	PerFn       map[string]int64  `json:"calls_per_function"`
	Violations  []*VioRecord      `json:"violations"`
	Samples     []json.RawMessage `json:"samples"`
	TraceHashes map[string]string `json:"trace_hashes"` // global run index -> trace hash (determinism cross-check)
	FirstSeed   uint64            `json:"first_run_seed"`
	LastSeed    uint64            `json:"last_run_seed"`
	HashFile    string            `json:"hash_file"`
	Exhaustive  []string          `json:"exhaustive_subspaces,omitempty"`
	Enum        map[string]int64  `json:"enumerations,omitempty"`
	SimReads    int64             `json:"sim_reads"`
	SimWrites   int64             `json:"sim_writes"`
	Machinery   []string          `json:"machinery_trouble,omitempty"`
}

// Params configure a worker.
type Params struct {
	Prop      string
	Engine    string
	Tier      string
	VerifSeed uint64
	Worker    int
	NWorkers  int
	MaxRuns   int64
	Deadline  time.Time
	OutDir    string
	ReplayDir string
	ShrinkS   int
	RaceLog   string
	Build     map[string]string
	SelfExe   string
	Schedules int
	BinDir    string
}

// ReplayFile is the on-disk format of a violation.
type ReplayFile struct {
	Format     int               `json:"format"`
	Property   string            `json:"property"`
	Engine     string            `json:"engine"`
	Tier       string            `json:"tier"`
	VerifSeed  uint64            `json:"verif_seed"`
	RunSeed    uint64            `json:"run_seed"`
	Build      map[string]string `json:"build"`
	Violation  Violation         `json:"violation"`
	Scenario   *Scenario         `json:"scenario"`
	TraceHash  string            `json:"trace_hash"`
	Minimised  bool              `json:"minimised"`
	EventsTail []string          `json:"events_tail"`
	Outcomes   [][]Outcome       `json:"outcomes,omitempty"`
}

// RunSeed derives the seed of global run index i.
func RunSeed(verifSeed uint64, prop string, i int64) uint64 {
	h := fnv.New64a()
	h.Write([]byte(prop))
	return simrt.Mix(simrt.Mix(verifSeed, h.Sum64()), uint64(i))
}

type workerState struct {
	p       Params
	sum     *Summary
	vios    map[string]*VioRecord
	hashes  *os.File
	nhashes int64
	seen    map[uint64]struct{}
}

func newWorkerState(p Params) *workerState {
	ws := &workerState{p: p, vios: map[string]*VioRecord{}, seen: map[uint64]struct{}{}}
	ws.sum = &Summary{Property: p.Prop, Engine: p.Engine, Worker: p.Worker, Race: simrt.RaceEnabled, Faults: map[string]int64{}, Probes: map[string]int64{},
		OutClasses: map[string]int64{}, PerTarget: map[string]int64{}, PerFn: map[string]int64{}, TraceHashes: map[string]string{}, Enum: map[string]int64{}}
	hf := filepath.Join(p.OutDir, fmt.Sprintf("hashes.%s.%d.bin", p.Engine, p.Worker))
	f, err := os.Create(hf)
	if err == nil {
		ws.hashes = f
		ws.sum.HashFile = hf
	}
	return ws
}

func (ws *workerState) noteDistinct(h uint64) {
	if _, ok := ws.seen[h]; ok {
		return
	}
	if len(ws.seen) < 4_000_000 {
		ws.seen[h] = struct{}{}
	}
	if ws.hashes != nil && ws.nhashes < 4_000_000 {
		var b [8]byte
		binary.LittleEndian.PutUint64(b[:], h)
		ws.hashes.Write(b[:])
		ws.nhashes++
	}
}

func (ws *workerState) account(sc *Scenario, r *RunResult) {
	s := ws.sum
	s.Runs++
	s.Calls += int64(r.Calls)
	s.Steps += r.Stats.Steps
	s.Yields += r.Stats.Yields
	s.PerTarget[sc.Target]++
	for k, v := range r.Probes {
		if strings.HasPrefix(k, "max_") {
			if v > s.Probes[k] {
				s.Probes[k] = v
			}
			continue
		}
		s.Probes[k] += v
	}
	for ti, outs := range r.Outcomes {
		var calls []Call
		if ti == 0 {
			calls = sc.Prelude
		} else if ti-1 < len(sc.Tasks) {
			calls = sc.Tasks[ti-1]
		}
		for i := range outs {
			o := &outs[i]
			if i < len(calls) {
				s.PerFn[FnNames[calls[i].Fn]]++
				key := FnNames[calls[i].Fn] + ":" + StNames[o.Status]
				if o.Status == StError {
					key += ":" + o.ErrClass
				}
				s.OutClasses[key]++
			}
		}
	}
	if r.Stats.PoolReuse > 0 {
		s.Faults["pool_recycled_state:"+poolNames[sc.Cfg.Pool]] += r.Stats.PoolReuse
	}
	if r.Stats.PoolEvicted > 0 {
		s.Faults["pool_eviction"] += r.Stats.PoolEvicted
	}
	if r.Stats.KeysNontrivial > 0 {
		s.Faults["map_order:"+mapNames[sc.Cfg.MapOrder]] += r.Stats.KeysNontrivial
	}
	if n := r.Probes["scribbled"]; n > 0 {
		s.Faults["caller_buffer_reuse"] += n
	}
	if n := r.Probes["calls_panicked"]; n > 0 {
		s.Faults["panic_escaped_call"] += n
	}
	if r.Stats.Switches > 0 {
		s.Faults["preemption"] += r.Stats.Switches
	}
	if !sc.Cfg.Warm {
		s.Faults["cold_caches"]++
	}
}

var poolNames = []string{"fresh", "lifo", "fifo", "arbitrary", "adversarial"}
var mapNames = []string{"sorted", "reversed", "rotated", "permuted"}

// Sample renders a scenario compactly for the evidence file.
func Sample(sc *Scenario, r *RunResult) json.RawMessage {
	type scall struct {
		Task    int    `json:"task"`
		Call    string `json:"call"`
		Outcome string `json:"outcome"`
	}
	trunc := func(b []byte) string {
		s := string(b)
		if len(s) > 160 {
			s = s[:160] + "…"
		}
		return s
	}
	var calls []scall
	render := func(task int, cs []Call, outs []Outcome) {
		for i, c := range cs {
			desc := FnNames[c.Fn] + "("
			switch {
			case c.Fn == FnDecodePatch:
				desc += trunc(sc.Bufs[c.A]) + fmt.Sprintf(") -> slot %d", c.Slot)
			case c.Fn == FnAccessors:
				desc += fmt.Sprintf("slot %d)", c.Slot)
			case usesSlot(c.Fn):
				desc += fmt.Sprintf("slot %d, doc=%s, opts=%+v, indent=%q)", c.Slot, trunc(sc.Bufs[c.A]), c.Opts, c.Indent)
			default:
				desc += trunc(sc.Bufs[c.A]) + ", " + trunc(sc.Bufs[c.B]) + ")"
			}
			if c.PrivA || c.PrivB {
				desc += " [private copies]"
			}
			o := ""
			if i < len(outs) {
				o = outs[i].Brief()
			}
			calls = append(calls, scall{task, desc, o})
		}
	}
	if len(r.Outcomes) > 0 {
		render(-1, sc.Prelude, r.Outcomes[0])
		for t := range sc.Tasks {
			if t+1 < len(r.Outcomes) {
				render(t, sc.Tasks[t], r.Outcomes[t+1])
			}
		}
	}
	m := map[string]any{
		"run_seed": sc.Seed, "engine": sc.Engine, "target": sc.Target,
		"config": map[string]any{"pool": poolNames[sc.Cfg.Pool], "evict_permille": sc.Cfg.Evict, "map_order": mapNames[sc.Cfg.MapOrder], "scribble": sc.Cfg.Scribble,
			"spare_cap": sc.Cfg.SpareCap, "warm": sc.Cfg.Warm, "sched": sc.Cfg.Sched, "switch_permille": sc.Cfg.SwitchPm, "pct_points": sc.Cfg.PCTPoints},
		"calls":      calls,
		"pool_reuse": r.Stats.PoolReuse,
		"switches":   r.Stats.Switches,
		"steps":      r.Stats.Steps,
		"trace_hash": fmt.Sprintf("%016x", r.TraceHash),
		"violations": len(r.Violations),
	}
	b, _ := json.Marshal(m)
	return b
}

// handleViolations records, minimises and writes replay files for new signatures.
func (ws *workerState) handleViolations(sc *Scenario, r *RunResult, test func(sig string) func(*Scenario) bool) {
	for _, v := range r.Violations {
		if !Counts(ws.p.Prop, v.Class) {
			continue
		}
		rec, ok := ws.vios[v.Sig]
		if ok {
			rec.Count++
			continue
		}
		rec = &VioRecord{Sig: v.Sig, Class: v.Class, Detail: v.Detail, Count: 1, FirstSeed: sc.Seed}
		ws.vios[v.Sig] = rec
		ws.sum.Violations = append(ws.sum.Violations, rec)
		// minimise (time-boxed), then write the replay file
		budget := time.Duration(ws.p.ShrinkS) * time.Second
		dl := time.Now().Add(budget)
		AbortAt = dl.Add(5 * time.Second)
		min, tries := Shrink(sc, test(v.Sig), dl)
		AbortAt = time.Time{}
		rec.ShrinkTries = tries
		minimised := min != sc
		// final strict recording of the minimised scenario
		fin := min.Clone()
		fin.Replay, fin.Lenient = true, true
		fr := Run(fin)
		viol := v
		for _, fv := range fr.Violations {
			if fv.Sig == v.Sig {
				viol = fv
			}
		}
		rf := &ReplayFile{Format: 1, Property: ws.p.Prop, Engine: sc.Engine, Tier: ws.p.Tier, VerifSeed: ws.p.VerifSeed, RunSeed: sc.Seed, Build: ws.p.Build,
			Violation: viol, Scenario: fin, TraceHash: fmt.Sprintf("%016x", fr.TraceHash), Minimised: minimised, Outcomes: fr.Outcomes}
		for _, e := range fr.Events {
			rf.EventsTail = append(rf.EventsTail, e.String())
		}
		h := fnv.New32a()
		h.Write([]byte(v.Sig))
		tag := ws.p.Engine
		if simrt.RaceEnabled {
			tag += "race"
		}
		name := fmt.Sprintf("%s-%08x-%s%d-%016x.json", ws.p.Prop, h.Sum32(), tag, ws.p.Worker, sc.Seed)
		path := filepath.Join(ws.p.ReplayDir, name)
		b, _ := json.MarshalIndent(rf, "", " ")
		os.MkdirAll(ws.p.ReplayDir, 0o755)
		os.WriteFile(path, b, 0o644)
		rec.ReplayFile = path
		rec.Calls = fin.NumCalls()
		rec.Detail = viol.Detail
	}
}

func (ws *workerState) finish(start time.Time) *Summary {
	s := ws.sum
	s.WallS = time.Since(start).Seconds()
	s.Pristine = PristineEvals
	s.Machinery = MachineryTrouble
	if ws.hashes != nil {
		ws.hashes.Close()
	}
	sort.Slice(s.Violations, func(i, j int) bool { return s.Violations[i].Sig < s.Violations[j].Sig })
	return s
}

func pickTarget(prop string, seed uint64) string {
	x := simrt.Mix(seed, 0x7a) % 100
	switch prop {
	case "C04":
		if x < 30 {
			return "legacy"
		}
	default:
		if x < 20 {
			return "legacy"
		}
	}
	return "v5"
}

// CurIndex is the global run index a worker is executing (diagnostics only: the memory safety
// net names it when it gives up).
var CurIndex atomic.Int64

// RunHistWorker is the sequential-history engine loop (C09, C04).
func RunHistWorker(p Params) *Summary {
	start := time.Now()
	ws := newWorkerState(p)
	test := func(sig string) func(*Scenario) bool { return InProcessTest(sig, nil) }
	for i := int64(0); i < p.MaxRuns && time.Now().Before(p.Deadline); i++ {
		gi := int64(p.Worker) + i*int64(p.NWorkers)
		own := true
		if i%50 == 49 {
			// determinism cross-check: re-execute a run that belongs to the next worker
			gi = int64((p.Worker+1)%p.NWorkers) + (i-49)*int64(p.NWorkers)
			own = false
		}
		seed := RunSeed(p.VerifSeed, p.Prop, gi)
		target := pickTarget(p.Prop, seed)
		CurIndex.Store(gi)
		sc, faults := GenHist(seed, p.Prop, target)
		t0 := time.Now()
		r := Run(sc)
		if d := time.Since(t0); d > 3*time.Second {
			ws.sum.Probes["slow_runs_over_3s"]++
			if ms := d.Milliseconds(); ms > ws.sum.Probes["max_run_ms"] {
				ws.sum.Probes["max_run_ms"] = ms
			}
		}
		if i%50 == 0 || !own {
			ws.sum.TraceHashes[fmt.Sprint(gi)] = fmt.Sprintf("%016x", r.TraceHash)
		}
		if !own {
			continue
		}
		if ws.sum.FirstSeed == 0 {
			ws.sum.FirstSeed = seed
		}
		ws.sum.LastSeed = seed
		ws.sum.Scenarios++
		ws.account(sc, r)
		for k, v := range faults {
			ws.sum.Faults[k] += v
		}
		nontrivial := r.Stats.PoolReuse > 0 || r.Probes["patch_reused"] > 0
		if p.Prop == "C04" {
			nontrivial = len(sc.Bufs) > 0 && r.Calls > 0
		}
		if nontrivial {
			ws.sum.Nontrivial++
			ws.noteDistinct(sc.ShapeHash())
			if len(ws.sum.Samples) < 3 && r.Calls >= 3 && (i%7 == 3 || p.MaxRuns < 50) {
				ws.sum.Samples = append(ws.sum.Samples, Sample(sc, r))
			}
		}
		ws.handleViolations(sc, r, test)
	}
	return ws.finish(start)
}

// ReplayResult is printed by replay mode.
type ReplayResult struct {
	Reproduced bool        `json:"reproduced"`
	SameTrace  bool        `json:"same_trace_hash"`
	Diverged   bool        `json:"replay_diverged"`
	TraceHash  string      `json:"trace_hash"`
	Violations []Violation `json:"violations"`
}

// Replay re-executes a replay file strictly.
func Replay(path string) (*ReplayFile, *ReplayResult, error) {
	b, err := os.ReadFile(path)
	if err != nil {
		return nil, nil, err
	}
	var rf ReplayFile
	if err := json.Unmarshal(b, &rf); err != nil {
		return nil, nil, err
	}
	sc := rf.Scenario
	sc.Replay, sc.Lenient = true, false
	rl := newRaceLog()
	r := Run(sc)
	MachineryTrouble = append(MachineryTrouble, addRaceViolations(rl, sc, r)...)
	res := &ReplayResult{TraceHash: fmt.Sprintf("%016x", r.TraceHash), Diverged: r.Diverged, Violations: r.Violations}
	res.Reproduced = HasSig(r.Violations, rf.Violation.Sig)
	res.SameTrace = strings.EqualFold(res.TraceHash, rf.TraceHash)
	return &rf, res, nil
}
