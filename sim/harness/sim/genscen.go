package sim

import (
	"fmt"
	"strings"

	"github.com/evanphx/json-patch/v5/zzverif/gen"
	"verif.local/simrt"
)

var indents = []string{"", " ", "\t", "  ", "    ", "  ", "\t",
	strings.Repeat(" ", 63), strings.Repeat(" ", 64), strings.Repeat(" ", 65), strings.Repeat("\t", 70), strings.Repeat(" \t", 40), strings.Repeat(" ", 300), "\n", "\r\n ", "x", "\u00a0", "--"}

type scenGen struct {
	r         *gen.R
	g         *gen.G
	sc        *Scenario
	docs      []int // buffer indexes by role
	pats      []int
	merges    []int
	bad       []int
	pairs     [][2]int // (document, variant derived from it)
	nextID    uint32
	prop      string
	faults    map[string]int64
	common    []Opts       // option values used by several calls through one shared *ApplyOptions
	ensureBuf map[int]bool // patch buffers written for callers that set EnsurePathExistsOnAdd
	slotBuf   map[int]int  // slot -> buffer it was last decoded from (generation-time view)
	longPair  [][2]int     // long array pairs: concurrent scenarios make sure they are compared and diffed
}

func (sg *scenGen) genCommonOpts(permille int) {
	if !sg.r.P(permille) {
		return
	}
	for i, n := 0, 1+sg.r.Intn(2); i < n; i++ {
		o := sg.opts()
		if sg.r.P(500) {
			// near the copy limit: accumulated sizes of different calls must not add up
			o.Limit = int64(8 + sg.r.Intn(120))
		}
		sg.common = append(sg.common, o)
	}
}

func (sg *scenGen) addBuf(b string) int {
	sg.sc.Bufs = append(sg.sc.Bufs, Bytes(b))
	return len(sg.sc.Bufs) - 1
}

func (sg *scenGen) genCfg() {
	r := sg.r
	c := &sg.sc.Cfg
	switch x := r.Intn(100); {
	case x < 10:
		c.Pool = simrt.PoolFresh
	case x < 35:
		c.Pool = simrt.PoolLIFO
	case x < 50:
		c.Pool = simrt.PoolFIFO
	case x < 75:
		c.Pool = simrt.PoolArbitrary
	default:
		c.Pool = simrt.PoolAdversarial
	}
	switch x := r.Intn(10); {
	case x < 6:
		c.Evict = 0
	case x < 8:
		c.Evict = 100
	default:
		c.Evict = 350
	}
	c.MapOrder = r.Intn(simrt.NumMapPolicies)
	c.Scribble = r.P(500)
	c.ScribbleResults = r.P(300)
	c.ReuseBuf = r.P(350)
	c.SpareCap = r.P(500)
	c.Warm = r.P(700)
	// package defaults set once at start-up (the only configuration the legacy package has)
	if r.P(300) {
		switch r.Intn(4) {
		case 0:
			c.PkgLimit = int64(1 + r.Intn(40))
		case 1:
			c.PkgLimit = int64(40 + r.Intn(400))
		case 2:
			c.PkgLimit = 100000
		default:
			c.PkgLimit = int64(r.Intn(6))
		}
	}
	c.PkgNegOff = r.P(120)
}

// genBufs fills the shared buffers: documents, variants, patches, merge
// patches and corrupted versions of some of them.
func (sg *scenGen) genBufs(corruptPermille int) {
	r, g := sg.r, sg.g
	ndocs := 1 + r.Intn(3)
	for i := 0; i < ndocs; i++ {
		d := g.Doc()
		di := sg.addBuf(d)
		sg.docs = append(sg.docs, di)
		if r.P(600) {
			vi := sg.addBuf(g.Variant(d))
			sg.docs = append(sg.docs, vi)
			sg.pairs = append(sg.pairs, [2]int{di, vi})
		}
		np := 1 + r.Intn(2)
		for j := 0; j < np; j++ {
			g.EnsureFlavour = r.P(200)
			bi := sg.addBuf(g.Patch(d, 6))
			if g.EnsureFlavour {
				if sg.ensureBuf == nil {
					sg.ensureBuf = map[int]bool{}
				}
				sg.ensureBuf[bi] = true
			}
			g.EnsureFlavour = false
			sg.pats = append(sg.pats, bi)
		}
		if r.P(700) {
			sg.merges = append(sg.merges, sg.addBuf(g.MergePatchFor(d)))
		}
	}
	if r.P(300) {
		sg.merges = append(sg.merges, sg.addBuf(g.MergePatchFor(string(sg.sc.Bufs[sg.docs[0]]))))
	}
	// S10: corrupted-storage variants of valid texts
	n := len(sg.sc.Bufs)
	for i := 0; i < n; i++ {
		if !r.P(corruptPermille) {
			continue
		}
		kind := 1 + r.Intn(gen.NumFaults-1)
		other := string(sg.sc.Bufs[r.Intn(n)])
		c := g.Corrupt(kind, string(sg.sc.Bufs[i]), other)
		if c == string(sg.sc.Bufs[i]) {
			continue
		}
		sg.faults["input_"+gen.FaultNames[kind]]++
		bi := sg.addBuf(c)
		sg.bad = append(sg.bad, bi)
		// a corrupted text stands in for what it was derived from
		switch {
		case containsInt(sg.pats, i):
			sg.pats = append(sg.pats, bi)
		case containsInt(sg.merges, i):
			sg.merges = append(sg.merges, bi)
		default:
			sg.docs = append(sg.docs, bi)
		}
	}
	if r.P(60) {
		sg.docs = append(sg.docs, sg.addBuf(""))
	}
	if r.P(80) {
		// a pair of long arrays (64-120 elements, mostly small objects, a few other values): work
		// that an implementation may split into batches or over workers
		n := 64 + r.Intn(57)
		vp := 300
		if r.P(450) {
			// several hundred elements and few differences
			n = 512 + r.Intn(200)
			vp = 4
		}
		mk := func(variant bool) string {
			var sb strings.Builder
			sb.WriteByte('[')
			for i := 0; i < n; i++ {
				if i > 0 {
					sb.WriteByte(',')
				}
				switch {
				case i%17 == 3 || i%29 == 11:
					// (the same in both documents: they differ only where the variant says so)
					sb.WriteString([]string{"1", `"s"`, "null", "[1]", "true"}[(i*7+n)%5])
				case variant && r.P(vp):
					fmt.Fprintf(&sb, `{"i":%d,"v":%s}`, i, g.Scalar())
				default:
					fmt.Fprintf(&sb, `{"i":%d,"v":"x"}`, i)
				}
			}
			sb.WriteByte(']')
			return sb.String()
		}
		ta, tb := mk(false), mk(true)
		if r.Bool() {
			// the arrays as members of two objects (compared as values, not diffed pair by pair)
			ta, tb = `{"id":1,"rows":`+ta+`}`, `{"id":1,"rows":`+tb+`}`
		}
		a, b := sg.addBuf(ta), sg.addBuf(tb)
		sg.docs = append(sg.docs, a, b)
		sg.pairs = append(sg.pairs, [2]int{a, b}, [2]int{a, b}, [2]int{a, b}, [2]int{b, a})
		sg.longPair = append(sg.longPair, [2]int{a, b})
		sg.faults["long_array_pair"]++
	}
	if r.P(60) {
		// a patch of 8-16 operations of which two or three are not acceptable, each in its own way
		// (no value, no from, unknown op, no path, from of the wrong type): which one is named in the
		// error must not depend on anything but the text
		n := 8 + r.Intn(9)
		badOps := []string{`{"op":"add","path":"/a"}`, `{"op":"move","path":"/b"}`, `{"op":"frobnicate","path":"/c","value":1}`, `{"op":"remove"}`, `{"op":"copy","from":7,"path":"/d"}`, `{"op":"replace","path":"/e"}`, `{"path":"/f","value":1}`, `{"op":"test","path":5,"value":1}`}
		nbad := 2 + r.Intn(2)
		at := map[int]string{}
		for len(at) < nbad {
			at[r.Intn(n)] = badOps[r.Intn(len(badOps))]
		}
		var sb strings.Builder
		sb.WriteByte('[')
		for i := 0; i < n; i++ {
			if i > 0 {
				sb.WriteByte(',')
			}
			if b, ok := at[i]; ok {
				sb.WriteString(b)
			} else {
				fmt.Fprintf(&sb, `{"op":"add","path":"/k%d","value":%d}`, i, i)
			}
		}
		sb.WriteByte(']')
		pi := sg.addBuf(sb.String())
		sg.pats = append(sg.pats, pi, pi, pi)
		sg.faults["patch_with_several_unacceptable_operations"]++
	}
	if r.P(45) {
		// results of 64 KiB and more (size classes of buffers, "large object" paths of pools and
		// caches): two documents of 66-140 KB made of many short members, a patch that touches one
		// member, a small document and the merge patches between them
		mk := func(tag string) string {
			var sb strings.Builder
			sb.WriteString(`{"kind":"` + tag + `","rows":[`)
			n := 2200 + r.Intn(2400)
			for i := 0; i < n; i++ {
				if i > 0 {
					sb.WriteByte(',')
				}
				fmt.Fprintf(&sb, `{"i":%d,"t":"%s-%d"}`, i, tag, i%97)
			}
			sb.WriteString(`],"end":true}`)
			return sb.String()
		}
		a, b := sg.addBuf(mk("a")), sg.addBuf(mk("b"))
		small := sg.addBuf(`{"kind":"s"}`)
		sg.docs = append(sg.docs, a, b, a, b)
		sg.pairs = append(sg.pairs, [2]int{small, a}, [2]int{a, b}, [2]int{small, b})
		sg.pats = append(sg.pats, sg.addBuf(`[{"op":"replace","path":"/kind","value":"z"}]`), sg.addBuf(`[{"op":"add","path":"/rows/0/n","value":null},{"op":"test","path":"/end","value":true}]`))
		sg.merges = append(sg.merges, sg.addBuf(`{"kind":"m","end":null}`), a)
		sg.faults["results_over_64KiB"]++
	}
}

func jsonQuoteName(n string) string {
	return "\"" + strings.NewReplacer("\\", "\\\\", "\"", "\\\"").Replace(n) + "\""
}

func containsInt(s []int, x int) bool {
	for _, v := range s {
		if v == x {
			return true
		}
	}
	return false
}

func (sg *scenGen) pick(s []int) int {
	if len(s) == 0 {
		return sg.r.Intn(len(sg.sc.Bufs))
	}
	return s[sg.r.Intn(len(s))]
}

func (sg *scenGen) anyBuf() int { return sg.r.Intn(len(sg.sc.Bufs)) }

func (sg *scenGen) opts() Opts {
	r := sg.r
	o := Opts{Neg: r.Bool(), Allow: r.Bool(), Ensure: r.P(400), Escape: r.Bool()}
	switch r.Intn(8) {
	case 0:
		o.Limit = int64(1 + r.Intn(40))
	case 1:
		o.Limit = 10000
	case 2:
		o.Limit = int64(r.Intn(5))
	}
	return o
}

// related makes a two-document call work on a document and a variant derived from
// it (deep, partially equal structures) rather than on two unrelated documents.
func (sg *scenGen) related(c *Call) {
	if len(sg.pairs) == 0 || !sg.r.P(600) {
		return
	}
	p := sg.pairs[sg.r.Intn(len(sg.pairs))]
	c.A, c.B = p[0], p[1]
	if sg.r.Bool() {
		c.A, c.B = c.B, c.A
	}
}

// genCall produces one call.  decoded lists the slots known to hold a patch.
func (sg *scenGen) genCall(slotsRead []int, slotWrite int, legacy bool) Call {
	r := sg.r
	sg.nextID++
	c := Call{ID: sg.nextID, PrivA: r.P(400), PrivB: r.P(400)}
	x := r.Intn(100)
	switch {
	case x < 14 || len(slotsRead) == 0 && x < 45:
		c.Fn = FnDecodePatch
		c.A = sg.pick(sg.pats)
		if r.P(60) {
			c.A = sg.anyBuf()
		}
		c.Slot = slotWrite
		if sg.prop != "C04" && r.P(70) {
			c.Corrupt = 1 + r.Intn(60) // a hand-assembled Patch (outside C04's stated domain)
			sg.faults["hand_assembled_patch"]++
		}
		if sg.slotBuf == nil {
			sg.slotBuf = map[int]int{}
		}
		sg.slotBuf[c.Slot] = c.A
	case x < 55 && len(slotsRead) > 0:
		c.Fn = []int{FnApply, FnApplyIndent, FnApplyWithOptions, FnApplyWithOptions, FnApplyIndentWithOptions}[r.Intn(5)]
		if legacy {
			c.Fn = []int{FnApply, FnApply, FnApplyIndent}[r.Intn(3)]
		}
		c.A = sg.pick(sg.docs)
		if r.P(50) {
			c.A = sg.anyBuf()
		}
		c.Slot = slotsRead[r.Intn(len(slotsRead))]
		if bi, ok := sg.slotBuf[c.Slot]; ok && sg.ensureBuf[bi] && !legacy && r.P(850) {
			// the patch was written for EnsurePathExistsOnAdd: apply it that way
			c.Fn = []int{FnApplyWithOptions, FnApplyIndentWithOptions}[r.Intn(2)]
			if c.Fn == FnApplyIndentWithOptions {
				c.Indent = indents[r.Intn(len(indents))]
			}
		}
		if c.Fn == FnApplyWithOptions || c.Fn == FnApplyIndentWithOptions {
			c.Opts = sg.opts()
			if bi, ok := sg.slotBuf[c.Slot]; ok && sg.ensureBuf[bi] && r.P(900) {
				c.Opts.Ensure = true
			}
			if len(sg.common) > 0 && r.P(600) {
				// one of the scenario's common option values, passed as one shared object
				c.Opts = sg.common[r.Intn(len(sg.common))]
				c.ShareOpts = true
			}
		}
		if c.Fn == FnApplyIndent || c.Fn == FnApplyIndentWithOptions {
			c.Indent = indents[r.Intn(len(indents))]
		}
	case x < 60 && len(slotsRead) > 0:
		c.Fn = FnAccessors
		c.Slot = slotsRead[r.Intn(len(slotsRead))]
	case x < 72:
		c.Fn = FnMergePatch
		c.A, c.B = sg.pick(sg.docs), sg.pick(sg.merges)
	case x < 80:
		c.Fn = FnMergeMergePatches
		c.A, c.B = sg.pick(sg.merges), sg.pick(sg.merges)
	case x < 90:
		c.Fn = FnCreateMergePatch
		c.A, c.B = sg.pick(sg.docs), sg.pick(sg.docs)
		sg.related(&c)
	default:
		c.Fn = FnEqual
		c.A, c.B = sg.pick(sg.docs), sg.pick(sg.docs)
		if r.P(300) {
			c.B = c.A
		}
		sg.related(&c)
	}
	if usesB(c.Fn) && r.P(80) {
		c.A, c.B = sg.anyBuf(), sg.anyBuf()
	}
	if usesB(c.Fn) && r.P(60) {
		c.B, c.PrivB = c.A, c.PrivA // the very same slice twice
	}
	if r.P(12) && c.Fn != FnAccessors {
		c.NilA = true
	}
	if usesB(c.Fn) && r.P(12) {
		c.NilB = true
	}
	c.Name = FnNames[c.Fn]
	return c
}

// GenHist generates a sequential history scenario (C09, C04).
func GenHist(seed uint64, prop, target string) (*Scenario, map[string]int64) {
	r := gen.NewR(seed)
	g := gen.New(r)
	sg := &scenGen{r: r, g: g, prop: prop, faults: map[string]int64{}}
	sg.sc = &Scenario{Format: 1, Property: prop, Engine: "hist", Target: target, Seed: seed, NSlots: 3}
	corrupt := 120
	if prop == "C04" {
		g.Awkward = r.P(650)
		corrupt = 350
	} else {
		g.Awkward = r.P(250)
	}
	sg.genCfg()
	sg.genBufs(corrupt)
	sg.genCommonOpts(350)
	n := 2 + r.Intn(12)
	if r.P(80) {
		n = 15 + r.Intn(26)
	}
	for _, b := range sg.sc.Bufs {
		// a very deep document costs ~10^8 steps per call (lazy re-parsing is quadratic
		// in the depth): keep such histories short so that they stay rare in time too
		if len(b) > 3000 && n > 4 {
			n = 4
		}
	}
	var calls []Call
	var decoded []int
	for i := 0; i < n; i++ {
		if len(calls) > 0 && r.P(280) {
			// repeat an earlier descriptor at a later point of the history
			c := calls[r.Intn(len(calls))]
			sg.nextID++
			c.ID = sg.nextID
			c.Tape, c.Switches = nil, nil
			if c.Fn == FnDecodePatch {
				c.Slot = r.Intn(sg.sc.NSlots)
				if !containsInt(decoded, c.Slot) {
					decoded = append(decoded, c.Slot)
				}
			}
			if r.P(300) {
				c.PrivA, c.PrivB = r.Bool(), r.Bool()
			}
			calls = append(calls, c)
			continue
		}
		c := sg.genCall(decoded, r.Intn(sg.sc.NSlots), target == "legacy")
		if c.Fn == FnDecodePatch && !containsInt(decoded, c.Slot) {
			decoded = append(decoded, c.Slot)
		}
		calls = append(calls, c)
	}
	sg.sc.Tasks = [][]Call{calls}
	boundIndentCost(sg.sc)
	return sg.sc, sg.faults
}

// boundIndentCost keeps the size of an indented result within what a worker can hold: a document
// nested d levels deep, indented with a string of l bytes, is d*d*l bytes long (every level's
// opening and closing line carries its whole indentation) - 2500 levels and a 300-byte indent are
// gigabytes of legitimate output.  Where the deepest buffer of the scenario makes that exceed
// 32 MiB the indent of the call is cut down; nothing else about the scenario changes.
func boundIndentCost(sc *Scenario) {
	depth := int64(1)
	for _, b := range sc.Bufs {
		var d, m int64
		for _, ch := range b {
			switch ch {
			case '[', '{':
				d++
				if d > m {
					m = d
				}
			case ']', '}':
				if d > 0 {
					d--
				}
			}
		}
		if m > depth {
			depth = m
		}
	}
	fix := func(cs []Call) {
		for i := range cs {
			for len(cs[i].Indent) > 1 && depth*depth*int64(len(cs[i].Indent)) > 32<<20 {
				cs[i].Indent = cs[i].Indent[:len(cs[i].Indent)/2]
			}
		}
	}
	fix(sc.Prelude)
	for _, t := range sc.Tasks {
		fix(t)
	}
}

// GenConc generates a concurrent scenario (C10): shared read-only inputs and one
// or two shared patches decoded before the tasks start.
func GenConc(seed uint64, prop, target string) (*Scenario, map[string]int64) {
	r := gen.NewR(seed)
	g := gen.New(r)
	sg := &scenGen{r: r, g: g, prop: prop, faults: map[string]int64{}}
	ntasks := 2 + r.Intn(3)
	if r.P(40) {
		ntasks = 8
	}
	nshared := 1 + r.Intn(2)
	sg.sc = &Scenario{Format: 1, Property: prop, Engine: "conc", Target: target, Seed: seed, NSlots: nshared + ntasks}
	g.Awkward = r.P(250)
	g.NoHuge = true
	sg.genCfg()
	sg.sc.Cfg.Warm = r.Bool()
	sg.genBufs(80)
	sg.genCommonOpts(600)
	var shared []int
	for s := 0; s < nshared; s++ {
		sg.nextID++
		pc := Call{ID: sg.nextID, Fn: FnDecodePatch, Name: "DecodePatch", A: sg.pick(sg.pats), Slot: s}
		if prop != "C04" && r.P(60) {
			// the Patch every task shares is a hand-assembled one with a damaged raw message
			pc.Corrupt = 1 + r.Intn(60)
			sg.faults["hand_assembled_shared_patch"]++
		}
		sg.sc.Prelude = append(sg.sc.Prelude, pc)
		shared = append(shared, s)
	}
	for t := 0; t < ntasks; t++ {
		n := 1 + r.Intn(6)
		own := nshared + t
		readable := append([]int(nil), shared...)
		var calls []Call
		for i := 0; i < n; i++ {
			c := sg.genCall(readable, own, target == "legacy")
			if c.Fn == FnDecodePatch && !containsInt(readable, own) {
				readable = append(readable, own)
			}
			// bias towards the shared patch and shared (non-private) documents
			if usesSlot(c.Fn) && r.P(700) {
				c.Slot = shared[r.Intn(len(shared))]
			}
			if r.P(600) {
				c.PrivA, c.PrivB = false, false
			}
			calls = append(calls, c)
		}
		if r.P(400) && t > 0 {
			// the same program as another task: identical calls racing on identical inputs
			src := sg.sc.Tasks[r.Intn(t)]
			calls = nil
			for _, c := range src {
				sg.nextID++
				c.ID = sg.nextID
				if c.Fn == FnDecodePatch {
					c.Slot = own
				} else if usesSlot(c.Fn) && c.Slot >= nshared {
					c.Slot = own
				}
				calls = append(calls, c)
			}
		}
		sg.sc.Tasks = append(sg.sc.Tasks, calls)
	}
	for _, lp := range sg.longPair {
		// work an implementation may spread over helpers: make sure it happens, in two tasks at once
		for k, t := 0, r.Intn(len(sg.sc.Tasks)); k < 2; k, t = k+1, (t+1)%len(sg.sc.Tasks) {
			sg.nextID++
			c := Call{ID: sg.nextID, Fn: FnCreateMergePatch, Name: "CreateMergePatch", A: lp[0], B: lp[1]}
			if k == 1 && r.Bool() {
				c.Fn, c.Name = FnEqual, "Equal"
			}
			at := r.Intn(len(sg.sc.Tasks[t]) + 1)
			sg.sc.Tasks[t] = append(sg.sc.Tasks[t][:at], append([]Call{c}, sg.sc.Tasks[t][at:]...)...)
		}
	}
	if r.P(60) {
		// Every task applies a patch whose copies stay just under the copy-size limit (an option in
		// v5, a package variable in the legacy package): whatever is counted must be counted per call.
		const limit = 64
		di := sg.addBuf(`{"s":"0123456789abcdefgh","n":null}`)
		pi := sg.addBuf(`[{"op":"copy","from":"/s","path":"/c1"},{"op":"copy","from":"/s","path":"/c2"},{"op":"copy","from":"/s","path":"/c3"}]`)
		if target == "legacy" {
			sg.sc.Cfg.PkgLimit = limit
		}
		share := r.Bool()
		for t := range sg.sc.Tasks {
			own := nshared + t
			sg.nextID++
			calls := []Call{{ID: sg.nextID, Fn: FnDecodePatch, Name: "DecodePatch", A: pi, Slot: own}}
			for i, n := 0, 2+r.Intn(3); i < n; i++ {
				sg.nextID++
				c := Call{ID: sg.nextID, Fn: FnApplyWithOptions, Name: "ApplyWithOptions", A: di, Slot: own, Opts: Opts{Limit: limit, Neg: true, Escape: true}, ShareOpts: share}
				if target == "legacy" {
					c.Fn, c.Name, c.Opts, c.ShareOpts = FnApply, "Apply", Opts{}, false
				}
				calls = append(calls, c)
			}
			sg.sc.Tasks[t] = append(calls, sg.sc.Tasks[t]...)
		}
		sg.faults["copies_just_under_the_limit_in_every_task"]++
	}
	if r.P(50) {
		// Every task the same document and patch, full of characters that HTML escaping rewrites, with
		// the tasks disagreeing about EscapeHTML: what one call's option decides must stay in that call.
		di := sg.addBuf(`{"a<b":{"x&y":"<tag>","k":["&amp;","\u2028"]},"plain":{"n":1},"t>":"1 < 2 && 3 > 2"}`)
		pi := sg.addBuf(`[{"op":"test","path":"/a<b","value":{"x&y":"<tag>","k":["&amp;","\u2028"]}},{"op":"copy","from":"/a<b","path":"/plain/c&d"},{"op":"add","path":"/plain/<new>","value":"a&b"}]`)
		for t := range sg.sc.Tasks {
			own := nshared + t
			sg.nextID++
			calls := []Call{{ID: sg.nextID, Fn: FnDecodePatch, Name: "DecodePatch", A: pi, Slot: own}}
			for i, n := 0, 2+r.Intn(3); i < n; i++ {
				sg.nextID++
				c := Call{ID: sg.nextID, Fn: FnApplyWithOptions, Name: "ApplyWithOptions", A: di, Slot: own, Opts: Opts{Neg: true, Escape: (t+i)%2 == 0}}
				if target == "legacy" {
					c.Fn, c.Name, c.Opts = FnApply, "Apply", Opts{}
				} else if r.P(300) {
					c.Fn, c.Name, c.Indent = FnApplyIndentWithOptions, "ApplyIndentWithOptions", " "
				}
				calls = append(calls, c)
			}
			sg.sc.Tasks[t] = append(calls, sg.sc.Tasks[t]...)
		}
		sg.faults["tasks_disagree_about_html_escaping"]++
	}
	if r.P(70) {
		// The same small program in every task, differing only in *which member* it addresses - among
		// them names that need ~0/~1 escapes in a pointer.  Whatever is remembered per key, per path
		// or per token (memos, interned strings, one-entry caches) is then used by several tasks at
		// once with different keys.
		names := []string{"a/b", "c~d", "e/f~g", "~1", "m~n", "plain", "x y", "/", "~"}
		var doc strings.Builder
		doc.WriteByte('{')
		for i, n := range names {
			if i > 0 {
				doc.WriteByte(',')
			}
			fmt.Fprintf(&doc, "%s:%d", jsonQuoteName(n), i)
		}
		doc.WriteByte('}')
		prefix := ""
		if r.Bool() {
			// the members one or two levels down: /o/<name>, /o/p/<name>
			prefix = r.Pick([]string{"/o", "/o/p"})
			inner := doc.String()
			doc.Reset()
			if prefix == "/o" {
				doc.WriteString(`{"o":` + inner + `,"z":1}`)
			} else {
				doc.WriteString(`{"o":{"p":` + inner + `,"q":[]},"z":1}`)
			}
		}
		di := sg.addBuf(doc.String())
		esc := strings.NewReplacer("~", "~0", "/", "~1")
		op := r.Pick([]string{"replace", "test", "remove", "copy"})
		for t := range sg.sc.Tasks {
			k := (t + r.Intn(2)) % len(names)
			var ptext string
			switch op {
			case "test":
				ptext = fmt.Sprintf(`[{"op":"test","path":"%s/%s","value":%d}]`, prefix, esc.Replace(names[k]), k)
			case "remove":
				ptext = fmt.Sprintf(`[{"op":"remove","path":"%s/%s"}]`, prefix, esc.Replace(names[k]))
			case "copy":
				ptext = fmt.Sprintf(`[{"op":"copy","from":"%s/%s","path":"%s/%s"}]`, prefix, esc.Replace(names[k]), prefix, esc.Replace(names[(k+1)%len(names)]))
			default:
				ptext = fmt.Sprintf(`[{"op":"replace","path":"%s/%s","value":"t%d"}]`, prefix, esc.Replace(names[k]), t)
			}
			pi := sg.addBuf(ptext)
			own := nshared + t
			sg.nextID++
			calls := []Call{{ID: sg.nextID, Fn: FnDecodePatch, Name: "DecodePatch", A: pi, Slot: own}}
			for i, n := 0, 2+r.Intn(4); i < n; i++ {
				sg.nextID++
				calls = append(calls, Call{ID: sg.nextID, Fn: FnApply, Name: "Apply", A: di, Slot: own})
			}
			if r.Bool() {
				sg.sc.Tasks[t] = append(calls, sg.sc.Tasks[t]...)
			} else {
				sg.sc.Tasks[t] = calls
			}
		}
		sg.faults["tasks_differ_in_addressed_member"]++
	}
	if r.P(30) {
		// Large inputs (more than 64 KiB together), one of them malformed, in private buffers the
		// caller overwrites as soon as the call has returned: work an implementation may hand to a
		// helper must be finished (or abandoned) by then.
		var sb strings.Builder
		sb.WriteByte('[')
		for i := 0; sb.Len() < 40000+r.Intn(40000); i++ {
			if i > 0 {
				sb.WriteByte(',')
			}
			fmt.Fprintf(&sb, `{"i":%d,"v":"%s"}`, i, strings.Repeat("y", r.Intn(30)))
		}
		sb.WriteByte(']')
		big := sb.String()
		good := sg.addBuf(big)
		bad := sg.addBuf(big[:len(big)/2] + "}" + big[len(big)/2:])
		bad0 := sg.addBuf("x" + big)
		sg.sc.Cfg.Scribble = true
		for t := range sg.sc.Tasks {
			if t < 2 || r.Bool() {
				sg.nextID++
				c := Call{ID: sg.nextID, Fn: []int{FnEqual, FnEqual, FnCreateMergePatch, FnMergePatch}[r.Intn(4)], A: []int{bad, bad0, good}[r.Intn(3)], B: []int{good, good, bad}[r.Intn(3)], PrivA: true, PrivB: true}
				c.Name = FnNames[c.Fn]
				sg.sc.Tasks[t] = append(sg.sc.Tasks[t], c)
			}
		}
		sg.faults["large_inputs_one_malformed"]++
	}
	if r.P(40) {
		// Several tasks first put a text nested deeper than 1024 levels through validation at
		// overlapping times (cheap: Equal against a scalar validates, then compares one level), so
		// that distinct pooled scanners have grown their nesting stacks before the ordinary calls
		// draw them from the pool.
		dt := g.Deep(1030 + r.Intn(400))
		if r.Bool() {
			dt = dt[:len(dt)/2-r.Intn(5)] // torn: the scan is abandoned more than 1024 levels down
		}
		deep := sg.addBuf(dt)
		one := sg.addBuf("1")
		for t := range sg.sc.Tasks {
			if t < 2 || r.Bool() {
				sg.nextID++
				c := Call{ID: sg.nextID, Fn: FnEqual, Name: "Equal", A: deep, B: one}
				sg.sc.Tasks[t] = append([]Call{c}, sg.sc.Tasks[t]...)
			}
		}
		sg.faults["deep_nesting_before_ordinary_calls"]++
	}
	boundIndentCost(sg.sc)
	return sg.sc, sg.faults
}

// Schedule strategies for the concurrent engine.
func ApplyStrategy(sc *Scenario, k uint64, totalYields int64) string {
	r := gen.NewR(simrt.Mix(sc.Seed, 7777+k))
	sc.Cfg.SchedSeed = r.U64()
	sc.Cfg.PCTPoints = nil
	if r.P(450) && totalYields > 2 {
		sc.Cfg.Sched = simrt.SchedPCT
		d := 1 + r.Intn(4)
		pts := make([]int64, 0, d)
		for i := 0; i < d; i++ {
			pts = append(pts, 1+int64(r.U64()%uint64(totalYields)))
		}
		// ascending
		for i := 1; i < len(pts); i++ {
			for j := i; j > 0 && pts[j] < pts[j-1]; j-- {
				pts[j], pts[j-1] = pts[j-1], pts[j]
			}
		}
		sc.Cfg.PCTPoints = pts
		return "pct"
	}
	sc.Cfg.Sched = simrt.SchedRandom
	sc.Cfg.SwitchPm = []int{20, 100, 300, 600}[r.Intn(4)]
	sc.Cfg.ClassMask = simrt.ClassAll
	if r.Bool() {
		sc.Cfg.ClassMask = 1 + r.Intn(simrt.ClassAll)
	}
	return "random"
}
