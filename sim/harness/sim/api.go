package sim

import (
	encjson "encoding/json"
	"errors"
	"fmt"
	"sort"
	"strings"
	"unsafe"

	legacy "github.com/evanphx/json-patch"
	v5 "github.com/evanphx/json-patch/v5"
	v5json "github.com/evanphx/json-patch/v5/internal/json"
)

// API abstracts the two packages under test.
type API interface {
	Name() string
	DecodePatch(b []byte) (any, error)
	// Apply runs the Apply variant fn of the given patch.
	// opts is what NewOptions returned (nil: build a fresh one from o).
	Apply(p any, fn int, doc []byte, o Opts, opts any, indent string) ([]byte, error)
	// NewOptions builds the options object of the package (nil if it has none).
	NewOptions(o Opts) any
	// OptionsSnapshot renders every field of an options object, unexported ones included.
	OptionsSnapshot(opts any) string
	MergePatch(a, b []byte) ([]byte, error)
	MergeMergePatches(a, b []byte) ([]byte, error)
	CreateMergePatch(a, b []byte) ([]byte, error)
	Equal(a, b []byte) bool
	// Describe renders the operations of a patch and their accessor results.
	Describe(p any, accessors bool) string
	// Snapshot captures identity, bytes and capacity of everything reachable from a patch.
	Snapshot(p any) string
	ErrClass(err error) string
	Supports(fn int) bool
	Reset()
	// CorruptPatch returns a hand-assembled copy of p with its k-th raw message damaged.
	CorruptPatch(p any, k int) any
	// SetDefaults assigns the package-level defaults (done between runs only, never while calls are in flight).
	SetDefaults(limit int64, negOff bool)
}

// ---------------------------------------------------------------------------

type v5API struct{}

func (v5API) Name() string         { return "v5" }
func (v5API) Supports(fn int) bool { return true }
func (v5API) Reset() {
	v5.SimReset()
	v5json.SimReset()
}

func damage(raw []byte, k int) *[]byte {
	switch k % 6 {
	case 4:
		// an invalid byte in the middle of the text (a scan error before the end)
		b := append([]byte(nil), raw...)
		if len(b) > 0 {
			b[len(b)/2] = '}'
		}
		if len(b) > 2 {
			b[len(b)/2-1] = ']'
		}
		return &b
	case 5:
		b := append(append([]byte(nil), raw...), " x"...)
		return &b
	}
	switch k % 4 {
	case 0:
		return nil
	case 1:
		b := append([]byte(nil), raw[:len(raw)/2]...)
		return &b
	case 2:
		b := []byte{}
		return &b
	}
	b := append([]byte("["), raw...)
	return &b
}

func (v5API) CorruptPatch(p any, k int) any {
	pp, _ := p.(v5.Patch)
	out := make(v5.Patch, len(pp))
	n := 0
	doneValue := false
	for i, op := range pp {
		keys := make([]string, 0, len(op))
		for key := range op {
			keys = append(keys, key)
		}
		sort.Strings(keys)
		cp := v5.Operation{}
		for _, key := range keys {
			v := op[key]
			n++
			hit := n == 1+(k/4)%16 || (n == 1 && len(pp) == 1 && len(keys) == 1)
			if k%2 == 0 {
				// every second hand-assembled Patch has its damage in an operation's value
				hit = key == "value" && !doneValue && i == (k/12)%len(pp)
				if hit {
					doneValue = true
				}
			}
			if hit {
				var raw []byte
				if v != nil {
					raw = *v
				}
				if d := damage(raw, k); d == nil {
					cp[key] = nil
				} else {
					rm := v5json.RawMessage(*d)
					cp[key] = &rm
				}
				continue
			}
			if v != nil {
				rm := append(v5json.RawMessage(nil), *v...)
				cp[key] = &rm
			} else {
				cp[key] = nil
			}
		}
		out[i] = cp
	}
	return out
}

func (v5API) SetDefaults(limit int64, negOff bool) {
	v5.AccumulatedCopySizeLimit = limit
	v5.SupportNegativeIndices = !negOff
}

func (v5API) DecodePatch(b []byte) (any, error) {
	p, err := v5.DecodePatch(b)
	if p == nil {
		return nil, err
	}
	return p, err
}

func (v5API) NewOptions(o Opts) any {
	return &v5.ApplyOptions{SupportNegativeIndices: o.Neg, AccumulatedCopySizeLimit: o.Limit, AllowMissingPathOnRemove: o.Allow, EnsurePathExistsOnAdd: o.Ensure, EscapeHTML: o.Escape}
}

func (v5API) OptionsSnapshot(opts any) string {
	if o, ok := opts.(*v5.ApplyOptions); ok && o != nil {
		return fmt.Sprintf("%+v", *o)
	}
	return ""
}

func (a v5API) Apply(p any, fn int, doc []byte, o Opts, shared any, indent string) ([]byte, error) {
	pp := p.(v5.Patch)
	opts, _ := shared.(*v5.ApplyOptions)
	if opts == nil {
		opts = a.NewOptions(o).(*v5.ApplyOptions)
	}
	switch fn {
	case FnApply:
		return pp.Apply(doc)
	case FnApplyIndent:
		return pp.ApplyIndent(doc, indent)
	case FnApplyWithOptions:
		return pp.ApplyWithOptions(doc, opts)
	default:
		return pp.ApplyIndentWithOptions(doc, indent, opts)
	}
}

func (v5API) MergePatch(a, b []byte) ([]byte, error)        { return v5.MergePatch(a, b) }
func (v5API) MergeMergePatches(a, b []byte) ([]byte, error) { return v5.MergeMergePatches(a, b) }
func (v5API) CreateMergePatch(a, b []byte) ([]byte, error)  { return v5.CreateMergePatch(a, b) }
func (v5API) Equal(a, b []byte) bool                        { return v5.Equal(a, b) }

func (v5API) Describe(p any, accessors bool) string {
	pp, _ := p.(v5.Patch)
	var sb strings.Builder
	fmt.Fprintf(&sb, "nil=%v n=%d\n", pp == nil, len(pp))
	for i, op := range pp {
		keys := make([]string, 0, len(op))
		for k := range op {
			keys = append(keys, k)
		}
		sort.Strings(keys)
		fmt.Fprintf(&sb, "op%d:", i)
		for _, k := range keys {
			if op[k] == nil {
				fmt.Fprintf(&sb, " %q=<nil>", k)
			} else {
				fmt.Fprintf(&sb, " %q=%q", k, []byte(*op[k]))
			}
		}
		if accessors {
			path, perr := op.Path()
			from, ferr := op.From()
			val, verr := op.ValueInterface()
			fmt.Fprintf(&sb, " | kind=%q path=%q,%v from=%q,%v value=%#v,%v", op.Kind(), path, errStr(perr), from, errStr(ferr), val, errStr(verr))
		}
		sb.WriteByte('\n')
	}
	return sb.String()
}

func (v5API) Snapshot(p any) string {
	pp, _ := p.(v5.Patch)
	var sb strings.Builder
	fmt.Fprintf(&sb, "len=%d cap=%d\n", len(pp), cap(pp))
	for i, op := range pp {
		keys := make([]string, 0, len(op))
		for k := range op {
			keys = append(keys, k)
		}
		sort.Strings(keys)
		fmt.Fprintf(&sb, "op%d:", i)
		for _, k := range keys {
			rm := op[k]
			if rm == nil {
				fmt.Fprintf(&sb, " %q=<nil>", k)
				continue
			}
			var base unsafe.Pointer
			if cap(*rm) > 0 {
				base = unsafe.Pointer(&(*rm)[:1][0])
			}
			fmt.Fprintf(&sb, " %q=@%p/%p len=%d cap=%d %q", k, rm, base, len(*rm), cap(*rm), []byte((*rm)[:cap(*rm)]))
		}
		sb.WriteByte('\n')
	}
	return sb.String()
}

func errStr(err error) string {
	if err == nil {
		return "<nil>"
	}
	return fmt.Sprintf("%T:%s", err, err.Error())
}

func (v5API) ErrClass(err error) string {
	if err == nil {
		return ""
	}
	var cls []string
	for _, s := range []struct {
		n string
		e error
	}{{"ErrTestFailed", v5.ErrTestFailed}, {"ErrMissing", v5.ErrMissing}, {"ErrUnknownType", v5.ErrUnknownType}, {"ErrInvalid", v5.ErrInvalid},
		{"ErrInvalidIndex", v5.ErrInvalidIndex}, {"ErrExpectedObject", v5.ErrExpectedObject}, {"ErrBadJSONDoc", v5.ErrBadJSONDoc}, {"ErrBadJSONPatch", v5.ErrBadJSONPatch}} {
		if errors.Is(err, s.e) {
			cls = append(cls, s.n)
		}
	}
	var ace *v5.AccumulatedCopySizeError
	if errors.As(err, &ace) {
		cls = append(cls, "AccumulatedCopySizeError")
	}
	var se *v5json.SyntaxError
	if errors.As(err, &se) {
		cls = append(cls, fmt.Sprintf("SyntaxError@%d", se.Offset))
	}
	var te *v5json.UnmarshalTypeError
	if errors.As(err, &te) {
		cls = append(cls, fmt.Sprintf("UnmarshalTypeError@%d", te.Offset))
	}
	return strings.Join(cls, ",")
}

// ---------------------------------------------------------------------------

type legacyAPI struct{}

func (legacyAPI) Name() string { return "legacy" }
func (legacyAPI) Supports(fn int) bool {
	return fn != FnApplyWithOptions && fn != FnApplyIndentWithOptions
}
func (legacyAPI) Reset() { legacy.SimReset() }

func (legacyAPI) CorruptPatch(p any, k int) any {
	pp, _ := p.(legacy.Patch)
	out := make(legacy.Patch, len(pp))
	n := 0
	for i, op := range pp {
		keys := make([]string, 0, len(op))
		for key := range op {
			keys = append(keys, key)
		}
		sort.Strings(keys)
		cp := legacy.Operation{}
		for _, key := range keys {
			v := op[key]
			n++
			if n == 1+(k/4)%16 {
				var raw []byte
				if v != nil {
					raw = *v
				}
				if d := damage(raw, k); d == nil {
					cp[key] = nil
				} else {
					rm := encjson.RawMessage(*d)
					cp[key] = &rm
				}
				continue
			}
			if v != nil {
				rm := append(encjson.RawMessage(nil), *v...)
				cp[key] = &rm
			} else {
				cp[key] = nil
			}
		}
		out[i] = cp
	}
	return out
}

func (legacyAPI) SetDefaults(limit int64, negOff bool) {
	legacy.AccumulatedCopySizeLimit = limit
	legacy.SupportNegativeIndices = !negOff
}

func (legacyAPI) DecodePatch(b []byte) (any, error) {
	p, err := legacy.DecodePatch(b)
	if p == nil {
		return nil, err
	}
	return p, err
}

func (legacyAPI) NewOptions(o Opts) any           { return nil }
func (legacyAPI) OptionsSnapshot(opts any) string { return "" }

func (legacyAPI) Apply(p any, fn int, doc []byte, o Opts, shared any, indent string) ([]byte, error) {
	pp := p.(legacy.Patch)
	if fn == FnApplyIndent {
		return pp.ApplyIndent(doc, indent)
	}
	return pp.Apply(doc)
}

func (legacyAPI) MergePatch(a, b []byte) ([]byte, error) { return legacy.MergePatch(a, b) }
func (legacyAPI) MergeMergePatches(a, b []byte) ([]byte, error) {
	return legacy.MergeMergePatches(a, b)
}
func (legacyAPI) CreateMergePatch(a, b []byte) ([]byte, error) { return legacy.CreateMergePatch(a, b) }
func (legacyAPI) Equal(a, b []byte) bool                       { return legacy.Equal(a, b) }

func (legacyAPI) Describe(p any, accessors bool) string {
	pp, _ := p.(legacy.Patch)
	var sb strings.Builder
	fmt.Fprintf(&sb, "nil=%v n=%d\n", pp == nil, len(pp))
	for i, op := range pp {
		keys := make([]string, 0, len(op))
		for k := range op {
			keys = append(keys, k)
		}
		sort.Strings(keys)
		fmt.Fprintf(&sb, "op%d:", i)
		for _, k := range keys {
			if op[k] == nil {
				fmt.Fprintf(&sb, " %q=<nil>", k)
			} else {
				fmt.Fprintf(&sb, " %q=%q", k, []byte(*op[k]))
			}
		}
		if accessors {
			path, perr := op.Path()
			from, ferr := op.From()
			val, verr := op.ValueInterface()
			fmt.Fprintf(&sb, " | kind=%q path=%q,%v from=%q,%v value=%#v,%v", op.Kind(), path, errStr(perr), from, errStr(ferr), val, errStr(verr))
		}
		sb.WriteByte('\n')
	}
	return sb.String()
}

func (legacyAPI) Snapshot(p any) string {
	pp, _ := p.(legacy.Patch)
	var sb strings.Builder
	fmt.Fprintf(&sb, "len=%d cap=%d\n", len(pp), cap(pp))
	for i, op := range pp {
		keys := make([]string, 0, len(op))
		for k := range op {
			keys = append(keys, k)
		}
		sort.Strings(keys)
		fmt.Fprintf(&sb, "op%d:", i)
		for _, k := range keys {
			rm := op[k]
			if rm == nil {
				fmt.Fprintf(&sb, " %q=<nil>", k)
				continue
			}
			var base unsafe.Pointer
			if cap(*rm) > 0 {
				base = unsafe.Pointer(&(*rm)[:1][0])
			}
			fmt.Fprintf(&sb, " %q=@%p/%p len=%d cap=%d %q", k, rm, base, len(*rm), cap(*rm), []byte((*rm)[:cap(*rm)]))
		}
		sb.WriteByte('\n')
	}
	return sb.String()
}

func (legacyAPI) ErrClass(err error) string {
	if err == nil {
		return ""
	}
	var cls []string
	for _, s := range []struct {
		n string
		e error
	}{{"ErrTestFailed", legacy.ErrTestFailed}, {"ErrMissing", legacy.ErrMissing}, {"ErrUnknownType", legacy.ErrUnknownType}, {"ErrInvalid", legacy.ErrInvalid},
		{"ErrInvalidIndex", legacy.ErrInvalidIndex}, {"ErrBadJSONDoc", legacy.ErrBadJSONDoc}, {"ErrBadJSONPatch", legacy.ErrBadJSONPatch}} {
		if errors.Is(err, s.e) {
			cls = append(cls, s.n)
		}
	}
	var ace *legacy.AccumulatedCopySizeError
	if errors.As(err, &ace) {
		cls = append(cls, "AccumulatedCopySizeError")
	}
	return strings.Join(cls, ",")
}

// APIFor returns the adapter of a target.
func APIFor(target string) API {
	if target == "legacy" {
		return legacyAPI{}
	}
	return v5API{}
}
