package sim

import (
	"bytes"
	"fmt"
	"hash/fnv"
	"runtime"
	"strings"

	"github.com/evanphx/json-patch/v5/zzverif/jr"
	"verif.local/simrt"
)

// Outcome statuses.
const (
	StOK = iota
	StError
	StPanic
	StHang
	StDeadlock
	StSkipped
)

var StNames = []string{"ok", "error", "panic", "hang", "deadlock", "skipped"}

// Outcome is everything observable about one call.
type Outcome struct {
	Status    int    `json:"status"`
	OutNil    bool   `json:"out_nil,omitempty"`
	Out       Bytes  `json:"out,omitempty"`
	Bool      bool   `json:"bool,omitempty"`
	ErrType   string `json:"err_type,omitempty"`
	ErrMsg    string `json:"err_msg,omitempty"`
	ErrClass  string `json:"err_class,omitempty"`
	PanicMsg  string `json:"panic_msg,omitempty"`
	PanicSite string `json:"panic_site,omitempty"`
	Extra     string `json:"extra,omitempty"` // DecodePatch / Accessors: operations and accessor results
	Steps     int64  `json:"steps,omitempty"`

	// handMade: the call used a hand-assembled Patch with a damaged raw message.  How the library
	// fails on such a value (which error, or a panic) is nobody's promise and does depend on Go's
	// map iteration order (lazyNode.equal ranges over a map: it meets the damaged member or a
	// differing one first); that it fails, and what it leaves behind, is still compared.
	handMade bool
	patch    any    // DecodePatch: the decoded patch (not part of the comparison)
	ret      []byte // the slice the library returned, kept to see whether a later call clobbers it
}

func (o *Outcome) Failed() bool { return o.Status != StOK }

func (o *Outcome) Digest() uint32 {
	h := fnv.New32a()
	h.Write([]byte{byte(o.Status)})
	h.Write(o.Out)
	if o.Bool {
		h.Write([]byte{1})
	}
	h.Write([]byte(o.ErrMsg))
	h.Write([]byte(o.PanicMsg))
	h.Write([]byte(o.Extra))
	return h.Sum32()
}

func (o *Outcome) Brief() string {
	switch o.Status {
	case StOK:
		s := string(o.Out)
		if len(s) > 120 {
			s = s[:120] + "…"
		}
		return fmt.Sprintf("ok out=%q bool=%v", s, o.Bool)
	case StError:
		return fmt.Sprintf("error %s %q [%s]", o.ErrType, o.ErrMsg, o.ErrClass)
	case StPanic:
		return fmt.Sprintf("panic %q at %s", o.PanicMsg, o.PanicSite)
	}
	return StNames[o.Status]
}

// byteExact reports whether results of fn must be byte-identical (C09/C10);
// the remaining functions must yield the same JSON value.
func byteExact(fn int) bool {
	return fn != FnMergePatch && fn != FnMergeMergePatches
}

// Compare returns "" when got equals want under the per-function rule, else the
// name of the first differing field.
func Compare(fn int, want, got *Outcome) string {
	if (want.handMade || got.handMade) && (want.Status == StError || want.Status == StPanic) && (got.Status == StError || got.Status == StPanic) {
		return ""
	}
	if want.Status != got.Status {
		return "status"
	}
	switch want.Status {
	case StOK:
		if want.Bool != got.Bool {
			return "bool"
		}
		if want.Extra != got.Extra {
			return "extra"
		}
		if bytes.Equal(want.Out, got.Out) {
			if want.OutNil != got.OutNil && byteExact(fn) {
				return "nil-ness"
			}
			return ""
		}
		if byteExact(fn) {
			return "bytes"
		}
		wv, werr := jr.Parse(want.Out)
		gv, gerr := jr.Parse(got.Out)
		if werr != nil || gerr != nil {
			// not both well-formed: only byte equality can be meaningful
			return "bytes"
		}
		if !jr.Equal(wv, gv) {
			return "value"
		}
		return ""
	case StError:
		if want.ErrType != got.ErrType {
			return "errtype"
		}
		if want.ErrClass != got.ErrClass {
			return "errclass"
		}
		if want.ErrMsg != got.ErrMsg {
			return "errmsg"
		}
		if !bytes.Equal(want.Out, got.Out) {
			return "bytes-with-error"
		}
		return ""
	case StPanic:
		// Two panics are the same outcome as far as C09/C10 go (their statement
		// speaks of success or error); where and why a call panics is C04's business.
		return ""
	}
	return ""
}

func classifyPanic(msg string) string {
	switch {
	case strings.Contains(msg, "nil pointer dereference"):
		return "nil-deref"
	case strings.Contains(msg, "index out of range"):
		return "index-out-of-range"
	case strings.Contains(msg, "slice bounds out of range"):
		return "slice-bounds"
	case strings.Contains(msg, "JSON decoder out of sync"):
		return "decoder-out-of-sync"
	case strings.Contains(msg, "interface conversion"):
		return "interface-conversion"
	case strings.Contains(msg, "nil map"):
		return "nil-map"
	case strings.Contains(msg, "stack overflow"):
		return "stack-overflow"
	}
	m := msg
	if len(m) > 48 {
		m = m[:48]
	}
	var sb strings.Builder
	for _, r := range m {
		if (r >= 'a' && r <= 'z') || (r >= 'A' && r <= 'Z') {
			sb.WriteRune(r)
		} else if sb.Len() > 0 && !strings.HasSuffix(sb.String(), "-") {
			sb.WriteByte('-')
		}
	}
	return strings.Trim(sb.String(), "-")
}

// panicSite finds the innermost frame that belongs to the library under test.
// It must be called from the deferred function that recovered the panic.
func panicSite() string {
	pcs := make([]uintptr, 64)
	n := runtime.Callers(3, pcs)
	frames := runtime.CallersFrames(pcs[:n])
	for {
		f, more := frames.Next()
		fn := f.Function
		if strings.Contains(fn, "github.com/evanphx/json-patch") && !strings.Contains(fn, "/zzverif/") {
			fn = strings.TrimPrefix(fn, "github.com/evanphx/json-patch/v5/internal/")
			fn = strings.TrimPrefix(fn, "github.com/evanphx/json-patch/")
			fn = strings.TrimPrefix(fn, "github.com/evanphx/")
			// closures: keep the enclosing function name
			if i := strings.Index(fn, ".func"); i > 0 {
				fn = fn[:i]
			}
			return fn
		}
		if !more {
			return "?"
		}
	}
}

// Violation is one property violation found in a run.
type Violation struct {
	Class  string `json:"class"`
	Sig    string `json:"signature"`
	Detail string `json:"detail"`
	CallID uint32 `json:"call_id,omitempty"`
}

func hangOrPanic(r any) (status int, msg string) {
	switch v := r.(type) {
	case simrt.HangSentinel:
		return StHang, v.Error()
	case simrt.DeadlockSentinel:
		return StDeadlock, v.Error()
	case error:
		return StPanic, v.Error()
	default:
		return StPanic, fmt.Sprint(r)
	}
}
