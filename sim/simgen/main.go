// simgen instruments a scratch copy of the json-patch sources so that every
// source of nondeterminism goes through verif.local/simrt.
//
//	simgen -repo /repo -simrt /verif/sim/simrt -harness /verif/sim/harness -out DIR
//
// Rules (see DESIGN.md §2.1): R1 sync.{Pool,WaitGroup,Mutex,RWMutex,Once} -> simrt
// types; R2 `range` over a map -> range over simrt.Keys(m) + lookup; R3 Step at
// every function entry and loop head, Yield at jsonpatch entries/loop heads and
// before statements touching mutable package-level variables; R4 generated
// SimReset per package.  Fails closed: any construct it cannot rewrite soundly
// makes it exit 2.
package main

import (
	"bytes"
	"crypto/sha256"
	"flag"
	"fmt"
	"go/ast"
	"go/build"
	"go/format"
	"go/importer"
	"go/parser"
	"go/token"
	"go/types"
	"io"
	"os"
	"path/filepath"
	"reflect"
	"sort"
	"strings"
)

const rtAlias = "zzsimrt"
const rtPath = "verif.local/simrt"

func fatal(format string, a ...any) {
	fmt.Fprintf(os.Stderr, "simgen: "+format+"\n", a...)
	os.Exit(2)
}

type pkgSpec struct {
	name     string // short label used in site names
	srcDir   string
	outDir   string
	importAs string // import path
	yieldAll bool   // Yield at every entry/loop head (jsonpatch packages)
	siteBase uint32
}

type localImporter struct {
	src   types.ImporterFrom
	local map[string]*types.Package
}

func (li *localImporter) Import(path string) (*types.Package, error) {
	return li.ImportFrom(path, "", 0)
}

func (li *localImporter) ImportFrom(path, dir string, mode types.ImportMode) (*types.Package, error) {
	if p, ok := li.local[path]; ok {
		return p, nil
	}
	return li.src.ImportFrom(path, dir, mode)
}

var treeHash = sha256.New()

func main() {
	repo := flag.String("repo", "/repo", "json-patch working tree")
	simrt := flag.String("simrt", "", "simrt sources")
	harness := flag.String("harness", "", "harness sources (copied under v5/zzverif)")
	out := flag.String("out", "", "output directory (must not exist or be empty)")
	flag.Parse()
	if *out == "" || *simrt == "" {
		fatal("need -out and -simrt")
	}
	must(os.MkdirAll(*out, 0o755))

	fset := token.NewFileSet()
	li := &localImporter{src: importer.ForCompiler(fset, "source", nil).(types.ImporterFrom), local: map[string]*types.Package{}}

	v5 := filepath.Join(*repo, "v5")
	specs := []pkgSpec{
		{name: "json", srcDir: filepath.Join(v5, "internal", "json"), outDir: filepath.Join(*out, "v5", "internal", "json"), importAs: "github.com/evanphx/json-patch/v5/internal/json", siteBase: 1 << 20},
		{name: "v5", srcDir: v5, outDir: filepath.Join(*out, "v5"), importAs: "github.com/evanphx/json-patch/v5", yieldAll: true, siteBase: 2 << 20},
		{name: "legacy", srcDir: *repo, outDir: filepath.Join(*out, "legacy"), importAs: "github.com/evanphx/json-patch", yieldAll: true, siteBase: 3 << 20},
	}
	// packages an edit may have added under v5/ are type-checked first (in as many passes as their
	// mutual imports need) so that the three instrumented packages can import them
	type extra struct{ dir, path string }
	var extras []extra
	filepath.Walk(v5, func(p string, info os.FileInfo, err error) error {
		if err != nil || !info.IsDir() {
			return nil
		}
		rel, _ := filepath.Rel(v5, p)
		if rel == "." || rel == "cmd" || strings.HasPrefix(rel, "cmd"+string(filepath.Separator)) || rel == filepath.Join("internal", "json") || strings.HasPrefix(rel, ".") {
			return nil
		}
		if bp, err := build.Default.ImportDir(p, 0); err == nil && len(bp.GoFiles) > 0 {
			extras = append(extras, extra{p, "github.com/evanphx/json-patch/v5/" + filepath.ToSlash(rel)})
		}
		return nil
	})
	// internal/json first: extras may import it, and it may import extras (then the passes sort it out)
	for pass := 0; pass < 4 && len(extras) > 0; pass++ {
		var left []extra
		for _, e := range extras {
			if !checkOnly(fset, li, e.dir, e.path) {
				left = append(left, e)
			}
		}
		if len(left) == len(extras) && pass > 0 {
			break
		}
		extras = left
	}
	for _, sp := range specs {
		instrumentPackage(fset, li, sp)
	}

	// simrt runtime
	copyTree(*simrt, filepath.Join(*out, "simrt"), func(p string) bool { return strings.HasSuffix(p, ".go") || strings.HasSuffix(p, "go.mod") })

	// the two commands, uninstrumented
	copyTree(filepath.Join(v5, "cmd"), filepath.Join(*out, "v5", "cmd"), func(p string) bool { return strings.HasSuffix(p, ".go") && !strings.HasSuffix(p, "_test.go") })
	copyTree(filepath.Join(*repo, "cmd"), filepath.Join(*out, "legacy", "cmd"), func(p string) bool { return strings.HasSuffix(p, ".go") && !strings.HasSuffix(p, "_test.go") })

	// packages an edit may have added under v5/ (helpers such as v5/internal/cache): copied as they
	// are, uninstrumented - the tree must build; what happens inside them is not simulated
	filepath.Walk(v5, func(p string, info os.FileInfo, err error) error {
		if err != nil || !info.IsDir() {
			return nil
		}
		rel, _ := filepath.Rel(v5, p)
		if rel == "." || rel == "cmd" || strings.HasPrefix(rel, "cmd"+string(filepath.Separator)) || rel == filepath.Join("internal", "json") || strings.HasPrefix(rel, ".") || strings.Contains(rel, "zzverif") {
			return nil
		}
		ents, _ := os.ReadDir(p)
		for _, e := range ents {
			if !e.IsDir() && strings.HasSuffix(e.Name(), ".go") && !strings.HasSuffix(e.Name(), "_test.go") {
				b, err := os.ReadFile(filepath.Join(p, e.Name()))
				must(err)
				treeHash.Write(b)
				must(os.MkdirAll(filepath.Join(*out, "v5", rel), 0o755))
				must(os.WriteFile(filepath.Join(*out, "v5", rel, e.Name()), b, 0o644))
				must(os.MkdirAll(filepath.Join(*out, "pristine", "v5", rel), 0o755))
			}
		}
		return nil
	})

	// module files
	gomod, err := os.ReadFile(filepath.Join(v5, "go.mod"))
	must(err)
	gosum, err := os.ReadFile(filepath.Join(v5, "go.sum"))
	must(err)
	treeHash.Write(gomod)
	v5mod := string(gomod) + "\nrequire verif.local/simrt v0.0.0\nrequire github.com/evanphx/json-patch v0.0.0\nreplace verif.local/simrt => ../simrt\nreplace github.com/evanphx/json-patch => ../legacy\n"
	must(os.WriteFile(filepath.Join(*out, "v5", "go.mod"), []byte(v5mod), 0o644))
	must(os.WriteFile(filepath.Join(*out, "v5", "go.sum"), gosum, 0o644))
	// legacy module: same requirements as v5 (the command needs go-flags)
	var req []string
	for _, l := range strings.Split(string(gomod), "\n") {
		t := strings.TrimSpace(l)
		if strings.HasPrefix(t, "require ") {
			req = append(req, t)
		}
	}
	legmod := "module github.com/evanphx/json-patch\n\ngo 1.18\n\n" + strings.Join(req, "\n") + "\nrequire verif.local/simrt v0.0.0\nreplace verif.local/simrt => ../simrt\n"
	must(os.WriteFile(filepath.Join(*out, "legacy", "go.mod"), []byte(legmod), 0o644))
	must(os.WriteFile(filepath.Join(*out, "legacy", "go.sum"), gosum, 0o644))

	if *harness != "" {
		copyTree(*harness, filepath.Join(*out, "v5", "zzverif"), func(p string) bool { return strings.HasSuffix(p, ".go") })
	}

	// pristine (uninstrumented) copies, from which the real command binaries are built
	nonTest := func(p string) bool { return strings.HasSuffix(p, ".go") && !strings.HasSuffix(p, "_test.go") }
	copyTree(v5, filepath.Join(*out, "pristine", "v5"), nonTest)
	must(os.WriteFile(filepath.Join(*out, "pristine", "v5", "go.mod"), gomod, 0o644))
	must(os.WriteFile(filepath.Join(*out, "pristine", "v5", "go.sum"), gosum, 0o644))
	pl := filepath.Join(*out, "pristine", "legacy")
	must(os.MkdirAll(pl, 0o755))
	ents, err := os.ReadDir(*repo)
	must(err)
	for _, e := range ents {
		if !e.IsDir() && nonTest(e.Name()) {
			b, err := os.ReadFile(filepath.Join(*repo, e.Name()))
			must(err)
			must(os.WriteFile(filepath.Join(pl, e.Name()), b, 0o644))
		}
	}
	copyTree(filepath.Join(*repo, "cmd"), filepath.Join(pl, "cmd"), nonTest)
	must(os.WriteFile(filepath.Join(pl, "go.mod"), []byte("module github.com/evanphx/json-patch\n\ngo 1.18\n\n"+strings.Join(req, "\n")+"\n"), 0o644))
	must(os.WriteFile(filepath.Join(pl, "go.sum"), gosum, 0o644))
	must(os.WriteFile(filepath.Join(*out, "TREE_SHA256"), []byte(fmt.Sprintf("%x\n", treeHash.Sum(nil))), 0o644))
}

func must(err error) {
	if err != nil {
		fatal("%v", err)
	}
}

func copyTree(src, dst string, keep func(string) bool) {
	err := filepath.Walk(src, func(p string, info os.FileInfo, err error) error {
		if err != nil {
			return err
		}
		rel, _ := filepath.Rel(src, p)
		if info.IsDir() {
			return nil
		}
		if !keep(p) {
			return nil
		}
		must(os.MkdirAll(filepath.Dir(filepath.Join(dst, rel)), 0o755))
		in, err := os.Open(p)
		if err != nil {
			return err
		}
		defer in.Close()
		o, err := os.Create(filepath.Join(dst, rel))
		if err != nil {
			return err
		}
		defer o.Close()
		_, err = io.Copy(o, in)
		return err
	})
	must(err)
}

// ---------------------------------------------------------------------------

type inst struct {
	initFuns []string // renamed init functions of the package, in Go's execution order
	fset    *token.FileSet
	info    *types.Info
	pkg     *types.Package
	spec    pkgSpec
	mutable map[*types.Var]bool
	sites   []string
	tmp     int
	curFile string
	usedRT  bool
}

// checkOnly type-checks an uninstrumented local package and registers it with the importer.
func checkOnly(fset *token.FileSet, li *localImporter, dir, importPath string) bool {
	bp, err := build.Default.ImportDir(dir, 0)
	if err != nil {
		return false
	}
	var files []*ast.File
	for _, f := range bp.GoFiles {
		af, err := parser.ParseFile(fset, filepath.Join(dir, f), nil, 0)
		if err != nil {
			return false
		}
		files = append(files, af)
	}
	ok := true
	conf := types.Config{Importer: li, Error: func(error) { ok = false }}
	pkg, _ := conf.Check(importPath, fset, files, nil)
	if ok && pkg != nil {
		li.local[importPath] = pkg
	}
	return ok
}

func instrumentPackage(fset *token.FileSet, li *localImporter, sp pkgSpec) {
	bp, err := build.Default.ImportDir(sp.srcDir, 0)
	if err != nil {
		fatal("%s: %v", sp.srcDir, err)
	}
	var files []*ast.File
	var names []string
	sort.Strings(bp.GoFiles)
	for _, f := range bp.GoFiles {
		full := filepath.Join(sp.srcDir, f)
		src, err := os.ReadFile(full)
		must(err)
		treeHash.Write([]byte(f))
		treeHash.Write(src)
		af, err := parser.ParseFile(fset, full, src, parser.ParseComments)
		if err != nil {
			fatal("parse %s: %v", full, err)
		}
		files = append(files, af)
		names = append(names, f)
	}
	info := &types.Info{
		InitOrder:  []*types.Initializer{},
		Types:      map[ast.Expr]types.TypeAndValue{},
		Defs:       map[*ast.Ident]types.Object{},
		Uses:       map[*ast.Ident]types.Object{},
		Selections: map[*ast.SelectorExpr]*types.Selection{},
	}
	var terrs []string
	conf := types.Config{Importer: li, Error: func(err error) { terrs = append(terrs, err.Error()) }}
	pkg, _ := conf.Check(sp.importAs, fset, files, info)
	if len(terrs) > 0 {
		fatal("type errors in %s:\n  %s", sp.srcDir, strings.Join(terrs, "\n  "))
	}
	li.local[sp.importAs] = pkg

	in := &inst{fset: fset, info: info, pkg: pkg, spec: sp, mutable: map[*types.Var]bool{}}
	in.findMutableGlobals(files)

	must(os.MkdirAll(sp.outDir, 0o755))
	for i, f := range files {
		in.curFile = names[i]
		in.usedRT = false
		// init functions become ordinary functions that the generated init calls in Go's order
		// (files by name, declarations in source order) and that SimReset calls again: what they
		// set up is part of the package's initial state
		for _, d := range f.Decls {
			if fd, ok := d.(*ast.FuncDecl); ok && fd.Recv == nil && fd.Name.Name == "init" {
				fd.Name = ast.NewIdent(fmt.Sprintf("zzinit%d", len(in.initFuns)))
				in.initFuns = append(in.initFuns, fd.Name.Name)
			}
		}
		in.rewriteFile(f)
		var buf bytes.Buffer
		if err := format.Node(&buf, fset, f); err != nil {
			fatal("print %s: %v", names[i], err)
		}
		must(os.WriteFile(filepath.Join(sp.outDir, names[i]), buf.Bytes(), 0o644))
	}
	in.writeGenerated(files)
}

// isPkgVar returns the package-level variable an identifier refers to, if any.
func (in *inst) isPkgVar(id *ast.Ident) *types.Var {
	obj := in.info.Uses[id]
	if obj == nil {
		obj = in.info.Defs[id]
	}
	v, ok := obj.(*types.Var)
	if !ok || v.IsField() {
		return nil
	}
	if v.Parent() != in.pkg.Scope() {
		return nil
	}
	return v
}

func rootIdent(e ast.Expr) *ast.Ident {
	for {
		switch x := e.(type) {
		case *ast.Ident:
			return x
		case *ast.SelectorExpr:
			e = x.X
		case *ast.IndexExpr:
			e = x.X
		case *ast.StarExpr:
			e = x.X
		case *ast.ParenExpr:
			e = x.X
		case *ast.SliceExpr:
			e = x.X
		default:
			return nil
		}
	}
}

// findMutableGlobals marks package-level variables that are written, have their
// address taken, have pointer-receiver methods called on them, or are exported
// scalars (callers may assign them).  Read-only tables are left out.
func (in *inst) findMutableGlobals(files []*ast.File) {
	mark := func(e ast.Expr) {
		if id := rootIdent(e); id != nil {
			if v := in.isPkgVar(id); v != nil {
				in.mutable[v] = true
			}
		}
	}
	for _, f := range files {
		ast.Inspect(f, func(n ast.Node) bool {
			switch x := n.(type) {
			case *ast.AssignStmt:
				if x.Tok != token.DEFINE {
					for _, l := range x.Lhs {
						mark(l)
					}
				}
			case *ast.IncDecStmt:
				mark(x.X)
			case *ast.UnaryExpr:
				if x.Op == token.AND {
					mark(x.X)
				}
			case *ast.RangeStmt:
				if x.Tok == token.ASSIGN {
					if x.Key != nil {
						mark(x.Key)
					}
					if x.Value != nil {
						mark(x.Value)
					}
				}
			case *ast.CallExpr:
				if sel, ok := x.Fun.(*ast.SelectorExpr); ok {
					if s := in.info.Selections[sel]; s != nil && s.Kind() == types.MethodVal {
						if sig, ok := s.Obj().Type().(*types.Signature); ok && sig.Recv() != nil {
							if _, ptr := sig.Recv().Type().(*types.Pointer); ptr {
								mark(sel.X)
							}
						}
					}
				}
			}
			return true
		})
	}
	sc := in.pkg.Scope()
	for _, name := range sc.Names() {
		if v, ok := sc.Lookup(name).(*types.Var); ok && v.Exported() {
			if b, ok := v.Type().Underlying().(*types.Basic); ok && b.Kind() != types.UnsafePointer {
				in.mutable[v] = true
			}
		}
		// A variable that holds a reference (pointer, map, slice, func, interface, or a struct
		// with such a field) can be changed through any alias of what it refers to without the
		// variable itself ever being assigned: what it reaches is process-wide mutable state.
		if v, ok := sc.Lookup(name).(*types.Var); ok && name != "_" && typeHasRefs(v.Type(), 0) {
			in.mutable[v] = true
		}
	}
}

func typeHasRefs(t types.Type, depth int) bool {
	if depth > 6 {
		return true
	}
	switch u := t.Underlying().(type) {
	case *types.Pointer, *types.Map, *types.Chan, *types.Signature, *types.Interface, *types.Slice:
		return true
	case *types.Array:
		return typeHasRefs(u.Elem(), depth+1)
	case *types.Struct:
		if nt, ok := t.(*types.Named); ok && nt.Obj().Pkg() != nil && nt.Obj().Pkg().Path() == "sync" {
			return false // handled by the sync rules
		}
		for i := 0; i < u.NumFields(); i++ {
			if typeHasRefs(u.Field(i).Type(), depth+1) {
				return true
			}
		}
	}
	return false
}

func (in *inst) site(pos token.Pos) uint32 {
	p := in.fset.Position(pos)
	in.sites = append(in.sites, fmt.Sprintf("%s/%s:%d", in.spec.name, filepath.Base(p.Filename), p.Line))
	return in.spec.siteBase + uint32(len(in.sites)-1)
}

func (in *inst) rtCall(fn string, args ...ast.Expr) *ast.ExprStmt {
	in.usedRT = true
	return &ast.ExprStmt{X: &ast.CallExpr{Fun: &ast.SelectorExpr{X: ast.NewIdent(rtAlias), Sel: ast.NewIdent(fn)}, Args: args}}
}

func intLit(v uint32) ast.Expr {
	return &ast.BasicLit{Kind: token.INT, Value: fmt.Sprint(v)}
}

func (in *inst) classExpr(name string) ast.Expr {
	in.usedRT = true
	return &ast.SelectorExpr{X: ast.NewIdent(rtAlias), Sel: ast.NewIdent(name)}
}

func (in *inst) stepStmt(pos token.Pos, class string) ast.Stmt {
	if in.spec.yieldAll {
		return in.rtCall("StepYield", intLit(in.site(pos)), in.classExpr(class))
	}
	return in.rtCall("Step", intLit(in.site(pos)))
}

// refuseConcurrency fails closed on what the cooperative scheduler does not model.  Since rules
// R5-R7 (goroutines, channels, select, sync.Cond) that is only the clock: a library that sleeps or
// waits for a timer would make results depend on real time, which the simulator does not own.
func (in *inst) refuseConcurrency(f *ast.File) {
	ast.Inspect(f, func(n ast.Node) bool {
		sel, ok := n.(*ast.SelectorExpr)
		if !ok {
			return true
		}
		id, ok := sel.X.(*ast.Ident)
		if !ok {
			return true
		}
		if pn, ok := in.info.Uses[id].(*types.PkgName); ok && pn.Imported().Path() == "time" {
			switch sel.Sel.Name {
			case "Sleep", "After", "AfterFunc", "NewTimer", "NewTicker", "Tick":
				p := in.fset.Position(n.Pos())
				fatal("%s:%d: time.%s in library code: the simulator has no clock seam for this library (cannot instrument; this is not a verdict)", p.Filename, p.Line, sel.Sel.Name)
			}
		}
		return true
	})
}

// isChan reports whether an expression of the original tree has channel type.
func (in *inst) isChan(e ast.Expr) bool {
	if tv, ok := in.info.Types[e]; ok && tv.Type != nil {
		_, is := tv.Type.Underlying().(*types.Chan)
		return is
	}
	return false
}

func (in *inst) rt(fn string, args ...ast.Expr) *ast.CallExpr {
	in.usedRT = true
	return &ast.CallExpr{Fun: &ast.SelectorExpr{X: ast.NewIdent(rtAlias), Sel: ast.NewIdent(fn)}, Args: args}
}

// rewriteChannels is rule R6: channel operations of library code go through the simulator
// (simrt.Send / Recv / Recv2 / Close / Len), which keeps each channel's queue in a side table and
// turns blocking into handing over the baton.  `for v := range ch` becomes a loop around Recv2.
func (in *inst) rewriteChannels(f *ast.File) {
	in.rewriteSelects(f)
	// comma-ok receives first (they are statements), then every remaining receive expression
	ast.Inspect(f, func(n ast.Node) bool {
		switch x := n.(type) {
		case *ast.AssignStmt:
			if len(x.Lhs) == 2 && len(x.Rhs) == 1 {
				if u, ok := x.Rhs[0].(*ast.UnaryExpr); ok && u.Op == token.ARROW {
					x.Rhs[0] = in.rt("Recv2", u.X)
				}
			}
		case *ast.ValueSpec:
			if len(x.Names) == 2 && len(x.Values) == 1 {
				if u, ok := x.Values[0].(*ast.UnaryExpr); ok && u.Op == token.ARROW {
					x.Values[0] = in.rt("Recv2", u.X)
				}
			}
		}
		return true
	})
	replaceExprs(f, func(e ast.Expr) ast.Expr {
		switch x := e.(type) {
		case *ast.UnaryExpr:
			if x.Op == token.ARROW {
				return in.rt("Recv", x.X)
			}
		case *ast.CallExpr:
			if id, ok := x.Fun.(*ast.Ident); ok && len(x.Args) == 1 {
				if _, builtin := in.info.Uses[id].(*types.Builtin); builtin && in.isChan(x.Args[0]) {
					switch id.Name {
					case "close":
						return in.rt("Close", x.Args[0])
					case "len":
						return in.rt("Len", x.Args[0])
					}
				}
			}
		}
		return e
	})
	replaceStmts(f, func(s ast.Stmt) ast.Stmt {
		switch x := s.(type) {
		case *ast.SendStmt:
			return &ast.ExprStmt{X: &ast.CallExpr{Fun: &ast.SelectorExpr{X: in.rt("SendTo", x.Chan), Sel: ast.NewIdent("V")}, Args: []ast.Expr{x.Value}}}
		case *ast.RangeStmt:
			if !in.isChan(x.X) {
				return s
			}
			in.tmp++
			id := ast.NewIdent
			cName, vName, okName := fmt.Sprintf("zzc%d", in.tmp), fmt.Sprintf("zzcv%d", in.tmp), fmt.Sprintf("zzcok%d", in.tmp)
			recv := &ast.AssignStmt{Lhs: []ast.Expr{id(vName), id(okName)}, Tok: token.DEFINE, Rhs: []ast.Expr{in.rt("Recv2", id(cName))}}
			stop := &ast.IfStmt{Cond: &ast.UnaryExpr{Op: token.NOT, X: id(okName)}, Body: &ast.BlockStmt{List: []ast.Stmt{&ast.BranchStmt{Tok: token.BREAK}}}}
			head := []ast.Stmt{recv, stop}
			switch {
			case x.Key == nil || isBlank(x.Key):
				head = append(head, &ast.AssignStmt{Lhs: []ast.Expr{id("_")}, Tok: token.ASSIGN, Rhs: []ast.Expr{id(vName)}})
			case x.Tok == token.DEFINE:
				head = append(head, &ast.AssignStmt{Lhs: []ast.Expr{x.Key}, Tok: token.DEFINE, Rhs: []ast.Expr{id(vName)}})
			default:
				head = append(head, &ast.AssignStmt{Lhs: []ast.Expr{x.Key}, Tok: token.ASSIGN, Rhs: []ast.Expr{id(vName)}})
			}
			loop := &ast.ForStmt{Body: &ast.BlockStmt{List: append(head, x.Body.List...)}}
			return &ast.BlockStmt{List: []ast.Stmt{&ast.AssignStmt{Lhs: []ast.Expr{id(cName)}, Tok: token.DEFINE, Rhs: []ast.Expr{x.X}}, loop}}
		}
		return s
	})
}

// rewriteAtomics is rule R8: an operation of sync/atomic that yields a value (Load, Add, Swap,
// CompareAndSwap - functions and methods alike) is followed by a pre-emption point *inside the
// expression*: `x.CompareAndSwap(old, old.next.Load())` becomes
// `simrt.AfterAtomic(s2, x.CompareAndSwap(old, simrt.AfterAtomic(s1, old.next.Load())))`, so that
// another task can run between the load and the compare-and-swap - the window lock-free code has
// to get right (check-then-act, ABA).  Statement-level yields (R3) cannot open it.
func (in *inst) rewriteAtomics(f *ast.File) {
	isAtomic := func(call *ast.CallExpr) bool {
		sel, ok := call.Fun.(*ast.SelectorExpr)
		if !ok {
			return false
		}
		var fn *types.Func
		if s, ok := in.info.Selections[sel]; ok {
			fn, _ = s.Obj().(*types.Func)
		} else if o, ok := in.info.Uses[sel.Sel].(*types.Func); ok {
			fn = o
		}
		if fn == nil || fn.Pkg() == nil || fn.Pkg().Path() != "sync/atomic" {
			return false
		}
		sig, ok := fn.Type().(*types.Signature)
		return ok && sig.Results().Len() == 1
	}
	replaceExprs(f, func(e ast.Expr) ast.Expr {
		call, ok := e.(*ast.CallExpr)
		if !ok || !isAtomic(call) {
			return e
		}
		return in.rt("AfterAtomic", intLit(in.site(call.Pos())), call)
	})
}

// rewriteSelects is rule R7: a select statement becomes a switch over simrt.Select, which decides
// and performs the chosen communication in one step of the simulated world:
//
//	{ zzsc1 := a; zzsc2 := b
//	  switch zzsel := simrt.Select(hasDefault, simrt.SelRecv(zzsc1), simrt.SelSendTo(zzsc2).V(x)); zzsel.I {
//	  case 0: v := simrt.SelGet(zzsc1, zzsel); ...
//	  case 1: ...
//	  default: ...
//	  } }
//
// Channel expressions are evaluated once, in source order, before the send values (the statement
// interleaves them; the difference shows only if both have side effects).  `break` keeps its
// meaning (it leaves the switch); a label of the select moves to the switch.
func (in *inst) rewriteSelects(f *ast.File) {
	generated := map[*ast.BlockStmt]bool{}
	id := ast.NewIdent
	replaceStmts(f, func(s ast.Stmt) ast.Stmt {
		if ls, ok := s.(*ast.LabeledStmt); ok {
			if b, ok := ls.Stmt.(*ast.BlockStmt); ok && generated[b] {
				last := len(b.List) - 1
				b.List[last] = &ast.LabeledStmt{Label: ls.Label, Stmt: b.List[last]}
				return b
			}
			return s
		}
		x, ok := s.(*ast.SelectStmt)
		if !ok {
			return s
		}
		in.tmp++
		selName := fmt.Sprintf("zzsel%d", in.tmp)
		var pre []ast.Stmt
		var args []ast.Expr
		var clauses []ast.Stmt
		hasDefault := "false"
		idx := 0
		recvOf := func(e ast.Expr) (ast.Expr, bool) {
			for {
				p, ok := e.(*ast.ParenExpr)
				if !ok {
					break
				}
				e = p.X
			}
			u, ok := e.(*ast.UnaryExpr)
			if !ok || u.Op != token.ARROW {
				return nil, false
			}
			return u.X, true
		}
		chanTemp := func(ch ast.Expr) ast.Expr {
			name := fmt.Sprintf("zzsc%d_%d", in.tmp, idx)
			pre = append(pre, &ast.AssignStmt{Lhs: []ast.Expr{id(name)}, Tok: token.DEFINE, Rhs: []ast.Expr{ch}})
			return id(name)
		}
		for _, c := range x.Body.List {
			cc := c.(*ast.CommClause)
			if cc.Comm == nil {
				hasDefault = "true"
				clauses = append(clauses, &ast.CaseClause{Body: cc.Body})
				continue
			}
			body := cc.Body
			switch comm := cc.Comm.(type) {
			case *ast.SendStmt:
				t := chanTemp(comm.Chan)
				args = append(args, &ast.CallExpr{Fun: &ast.SelectorExpr{X: in.rt("SelSendTo", t), Sel: id("V")}, Args: []ast.Expr{comm.Value}})
			case *ast.ExprStmt:
				ch, ok := recvOf(comm.X)
				if !ok {
					p := in.fset.Position(comm.Pos())
					fatal("%s:%d: unexpected communication clause (cannot instrument; this is not a verdict)", p.Filename, p.Line)
				}
				args = append(args, in.rt("SelRecv", chanTemp(ch)))
			case *ast.AssignStmt:
				ch, ok := recvOf(comm.Rhs[0])
				if !ok {
					p := in.fset.Position(comm.Pos())
					fatal("%s:%d: unexpected communication clause (cannot instrument; this is not a verdict)", p.Filename, p.Line)
				}
				t := chanTemp(ch)
				args = append(args, in.rt("SelRecv", t))
				get := "SelGet"
				if len(comm.Lhs) == 2 {
					get = "SelGet2"
				}
				first := &ast.AssignStmt{Lhs: comm.Lhs, Tok: comm.Tok, Rhs: []ast.Expr{in.rt(get, t, id(selName))}}
				body = append([]ast.Stmt{first}, body...)
			}
			clauses = append(clauses, &ast.CaseClause{List: []ast.Expr{&ast.BasicLit{Kind: token.INT, Value: fmt.Sprint(idx)}}, Body: body})
			idx++
		}
		if hasDefault == "false" {
			// a select whose clauses all end in a terminating statement is itself terminating; the
			// switch is only with a default clause (which Select never takes here)
			clauses = append(clauses, &ast.CaseClause{Body: []ast.Stmt{&ast.ExprStmt{X: &ast.CallExpr{Fun: id("panic"), Args: []ast.Expr{&ast.BasicLit{Kind: token.STRING, Value: `"simrt.Select: no clause taken"`}}}}}})
		}
		call := in.rt("Select", append([]ast.Expr{id(hasDefault)}, args...)...)
		sw := &ast.SwitchStmt{
			Init: &ast.AssignStmt{Lhs: []ast.Expr{id(selName)}, Tok: token.DEFINE, Rhs: []ast.Expr{call}},
			Tag:  &ast.SelectorExpr{X: id(selName), Sel: id("I")},
			Body: &ast.BlockStmt{List: clauses},
		}
		b := &ast.BlockStmt{List: append(pre, sw)}
		generated[b] = true
		return b
	})
}

var (
	exprType = reflect.TypeOf((*ast.Expr)(nil)).Elem()
	stmtType = reflect.TypeOf((*ast.Stmt)(nil)).Elem()
)

// replaceExprs / replaceStmts rewrite every ast.Expr (ast.Stmt) slot of the tree bottom-up.
func replaceExprs(root ast.Node, f func(ast.Expr) ast.Expr) {
	walkSlots(reflect.ValueOf(root), exprType, func(v reflect.Value) {
		if e, ok := v.Interface().(ast.Expr); ok && e != nil {
			v.Set(reflect.ValueOf(f(e)))
		}
	})
}

func replaceStmts(root ast.Node, f func(ast.Stmt) ast.Stmt) {
	walkSlots(reflect.ValueOf(root), stmtType, func(v reflect.Value) {
		if s, ok := v.Interface().(ast.Stmt); ok && s != nil {
			if ls, isL := s.(*ast.LabeledStmt); isL {
				_ = ls // the labelled statement's own slot (ls.Stmt) is visited as a field
			}
			v.Set(reflect.ValueOf(f(s)))
		}
	})
}

func walkSlots(v reflect.Value, slot reflect.Type, visit func(reflect.Value)) {
	switch v.Kind() {
	case reflect.Pointer:
		if !v.IsNil() {
			walkSlots(v.Elem(), slot, visit)
		}
	case reflect.Interface:
		if !v.IsNil() {
			walkSlots(v.Elem(), slot, visit)
		}
	case reflect.Slice:
		for i := 0; i < v.Len(); i++ {
			el := v.Index(i)
			walkSlots(el, slot, visit)
			if el.Type() == slot && el.CanSet() {
				visit(el)
			}
		}
	case reflect.Struct:
		t := v.Type()
		if t.PkgPath() != "go/ast" {
			return
		}
		for i := 0; i < v.NumField(); i++ {
			fv := v.Field(i)
			ft := t.Field(i)
			if !ft.IsExported() || ft.Name == "Obj" || ft.Name == "Scope" || ft.Name == "Unresolved" || ft.Name == "Comments" || ft.Name == "Doc" || ft.Name == "Comment" {
				continue
			}
			walkSlots(fv, slot, visit)
			if fv.Type() == slot && fv.CanSet() {
				visit(fv)
			}
		}
	}
}

func (in *inst) rewriteFile(f *ast.File) {
	in.refuseConcurrency(f)
	in.rewriteChannels(f)
	in.rewriteAtomics(f)
	// R1: sync types
	syncUsed := false
	ast.Inspect(f, func(n ast.Node) bool {
		sel, ok := n.(*ast.SelectorExpr)
		if !ok {
			return true
		}
		id, ok := sel.X.(*ast.Ident)
		if !ok {
			return true
		}
		pn, ok := in.info.Uses[id].(*types.PkgName)
		if !ok || pn.Imported().Path() != "sync" {
			return true
		}
		switch sel.Sel.Name {
		case "Pool", "WaitGroup", "Mutex", "RWMutex", "Once", "Cond", "NewCond":
			id.Name = rtAlias
			in.usedRT = true
		default:
			syncUsed = true
		}
		return true
	})

	// runtime.GOMAXPROCS(n) / runtime.NumCPU() -> simrt.NumProcs(): the real values differ between
	// worker processes and must not decide what the library does
	ast.Inspect(f, func(n ast.Node) bool {
		call, ok := n.(*ast.CallExpr)
		if !ok {
			return true
		}
		sel, ok := call.Fun.(*ast.SelectorExpr)
		if !ok {
			return true
		}
		id, ok := sel.X.(*ast.Ident)
		if !ok {
			return true
		}
		pn, ok := in.info.Uses[id].(*types.PkgName)
		if !ok || pn.Imported().Path() != "runtime" || (sel.Sel.Name != "GOMAXPROCS" && sel.Sel.Name != "NumCPU") {
			return true
		}
		call.Fun = &ast.SelectorExpr{X: ast.NewIdent(rtAlias), Sel: ast.NewIdent("NumProcs")}
		call.Args = nil
		in.usedRT = true
		return true
	})

	// R2b: reflect.Value.MapRange / MapKeys -> simrt (hidden map iteration order)
	ast.Inspect(f, func(n ast.Node) bool {
		call, ok := n.(*ast.CallExpr)
		if !ok || len(call.Args) != 0 {
			return true
		}
		sel, ok := call.Fun.(*ast.SelectorExpr)
		if !ok {
			return true
		}
		s := in.info.Selections[sel]
		if s == nil || s.Kind() != types.MethodVal {
			return true
		}
		fn, ok := s.Obj().(*types.Func)
		if !ok || fn.Pkg() == nil || fn.Pkg().Path() != "reflect" || (fn.Name() != "MapRange" && fn.Name() != "MapKeys") {
			return true
		}
		if nt, ok := s.Recv().(*types.Named); !ok || nt.Obj().Name() != "Value" {
			return true
		}
		call.Args = []ast.Expr{sel.X}
		call.Fun = &ast.SelectorExpr{X: ast.NewIdent(rtAlias), Sel: ast.NewIdent(fn.Name())}
		in.usedRT = true
		return true
	})

	// R2/R3 on every function body
	var bodies []*ast.BlockStmt
	var poss []token.Pos
	ast.Inspect(f, func(n ast.Node) bool {
		switch x := n.(type) {
		case *ast.FuncDecl:
			if x.Body != nil {
				bodies = append(bodies, x.Body)
				poss = append(poss, x.Pos())
			}
		case *ast.FuncLit:
			bodies = append(bodies, x.Body)
			poss = append(poss, x.Pos())
		}
		return true
	})
	for i, b := range bodies {
		b.List = in.rewriteList(b.List)
		b.List = append([]ast.Stmt{in.stepStmt(poss[i], "ClassEntry")}, b.List...)
	}

	// imports: "runtime" may have lost its last use to the NumProcs rewrite
	runtimeUsed := false
	ast.Inspect(f, func(n ast.Node) bool {
		if sel, ok := n.(*ast.SelectorExpr); ok {
			if id, ok := sel.X.(*ast.Ident); ok && id.Name == "runtime" {
				if pn, ok := in.info.Uses[id].(*types.PkgName); ok && pn.Imported().Path() == "runtime" {
					runtimeUsed = true
				}
			}
		}
		return true
	})
	hadSync := false
	for _, d := range f.Decls {
		gd, ok := d.(*ast.GenDecl)
		if !ok || gd.Tok != token.IMPORT {
			continue
		}
		var specs []ast.Spec
		for _, s := range gd.Specs {
			is := s.(*ast.ImportSpec)
			if is.Path.Value == `"sync"` {
				hadSync = true
				if !syncUsed {
					continue
				}
			}
			if is.Path.Value == `"runtime"` && is.Name == nil && !runtimeUsed {
				continue
			}
			specs = append(specs, s)
		}
		gd.Specs = specs
	}
	_ = hadSync
	if in.usedRT {
		imp := &ast.GenDecl{Tok: token.IMPORT, Specs: []ast.Spec{&ast.ImportSpec{Name: ast.NewIdent(rtAlias), Path: &ast.BasicLit{Kind: token.STRING, Value: fmt.Sprintf("%q", rtPath)}}}}
		f.Decls = append([]ast.Decl{imp}, f.Decls...)
	}
	// drop empty import decls
	var decls []ast.Decl
	for _, d := range f.Decls {
		if gd, ok := d.(*ast.GenDecl); ok && gd.Tok == token.IMPORT && len(gd.Specs) == 0 {
			continue
		}
		decls = append(decls, d)
	}
	f.Decls = decls

	// comments: new nodes carry no positions, so free-floating comments could be
	// printed into the middle of generated code; keep compiler directives only.
	var keep []*ast.CommentGroup
	for _, cg := range f.Comments {
		for _, c := range cg.List {
			if strings.HasPrefix(c.Text, "//go:") || strings.HasPrefix(c.Text, "//line") || strings.HasPrefix(c.Text, "// +build") {
				keep = append(keep, cg)
				break
			}
		}
	}
	f.Comments = keep
	ast.Inspect(f, func(n ast.Node) bool {
		switch x := n.(type) {
		case *ast.FuncDecl:
			if x.Doc != nil && !contains(keep, x.Doc) {
				x.Doc = nil
			}
		case *ast.GenDecl:
			if x.Doc != nil && !contains(keep, x.Doc) {
				x.Doc = nil
			}
		case *ast.Field:
			x.Doc, x.Comment = nil, nil
		case *ast.ValueSpec:
			x.Doc, x.Comment = nil, nil
		case *ast.TypeSpec:
			x.Doc, x.Comment = nil, nil
		case *ast.ImportSpec:
			x.Doc, x.Comment = nil, nil
		}
		return true
	})
	f.Doc = nil
}

func contains(l []*ast.CommentGroup, c *ast.CommentGroup) bool {
	for _, x := range l {
		if x == c {
			return true
		}
	}
	return false
}

// touchesMutableGlobal reports whether the statement itself (not nested blocks
// or function literals) mentions a mutable package-level variable.
func (in *inst) touchesMutableGlobal(s ast.Stmt) bool {
	found := false
	ast.Inspect(s, func(n ast.Node) bool {
		if found {
			return false
		}
		switch x := n.(type) {
		case *ast.BlockStmt:
			if ast.Node(x) != ast.Node(s) {
				return false
			}
		case *ast.FuncLit:
			return false
		case *ast.CaseClause, *ast.CommClause:
			return false
		case *ast.Ident:
			if v := in.isPkgVar(x); v != nil && in.mutable[v] {
				found = true
			}
		}
		return true
	})
	return found
}

func (in *inst) rewriteList(list []ast.Stmt) []ast.Stmt {
	var out []ast.Stmt
	for _, s := range list {
		ns := in.rewriteStmt(s)
		switch s.(type) {
		case *ast.BlockStmt, *ast.LabeledStmt:
		default:
			if in.touchesMutableGlobal(s) {
				out = append(out, in.rtCall("Yield", intLit(in.site(s.Pos())), in.classExpr("ClassGlobal")))
			}
		}
		out = append(out, ns)
	}
	return out
}

func (in *inst) rewriteBlock(b *ast.BlockStmt) {
	if b != nil {
		b.List = in.rewriteList(b.List)
	}
}

func (in *inst) rewriteStmt(s ast.Stmt) ast.Stmt {
	switch x := s.(type) {
	case *ast.BlockStmt:
		in.rewriteBlock(x)
	case *ast.IfStmt:
		in.rewriteBlock(x.Body)
		if x.Else != nil {
			x.Else = in.rewriteStmt(x.Else)
		}
	case *ast.ForStmt:
		in.rewriteBlock(x.Body)
		x.Body.List = append([]ast.Stmt{in.stepStmt(x.Pos(), "ClassLoop")}, x.Body.List...)
	case *ast.RangeStmt:
		return in.rewriteRange(x, nil)
	case *ast.LabeledStmt:
		if rs, ok := x.Stmt.(*ast.RangeStmt); ok {
			return in.rewriteRange(rs, x)
		}
		x.Stmt = in.rewriteStmt(x.Stmt)
	case *ast.SwitchStmt:
		in.rewriteClauses(x.Body)
	case *ast.TypeSwitchStmt:
		in.rewriteClauses(x.Body)
	case *ast.SelectStmt:
		in.rewriteClauses(x.Body)
	case *ast.GoStmt:
		return in.rewriteGo(x)
	}
	return s
}

// rewriteGo turns `go f(a, b)` into
//
//	{ zzgF := f; zzgA0 := a; zzgA1 := b; zzsimrt.Go(func() { zzgF(zzgA0, zzgA1) }) }
//
// (function value and arguments are evaluated by the spawning goroutine, as the language
// requires), so that the new goroutine is scheduled by the simulator like a caller task.
func (in *inst) rewriteGo(g *ast.GoStmt) ast.Stmt {
	in.usedRT = true
	in.tmp++
	id := ast.NewIdent
	var pre []ast.Stmt
	call := g.Call
	fun := call.Fun
	switch fun.(type) {
	case *ast.FuncLit, *ast.Ident:
	default:
		name := fmt.Sprintf("zzgF%d", in.tmp)
		pre = append(pre, &ast.AssignStmt{Lhs: []ast.Expr{id(name)}, Tok: token.DEFINE, Rhs: []ast.Expr{fun}})
		fun = id(name)
	}
	var args []ast.Expr
	for i, a := range call.Args {
		name := fmt.Sprintf("zzgA%d_%d", in.tmp, i)
		pre = append(pre, &ast.AssignStmt{Lhs: []ast.Expr{id(name)}, Tok: token.DEFINE, Rhs: []ast.Expr{a}})
		args = append(args, id(name))
	}
	inner := &ast.CallExpr{Fun: fun, Args: args, Ellipsis: call.Ellipsis}
	if call.Ellipsis != token.NoPos {
		inner.Ellipsis = 1
	}
	lit := &ast.FuncLit{Type: &ast.FuncType{Params: &ast.FieldList{}}, Body: &ast.BlockStmt{List: []ast.Stmt{&ast.ExprStmt{X: inner}}}}
	spawn := &ast.ExprStmt{X: &ast.CallExpr{Fun: &ast.SelectorExpr{X: id(rtAlias), Sel: id("Go")}, Args: []ast.Expr{lit}}}
	return &ast.BlockStmt{List: append(pre, spawn)}
}

func (in *inst) rewriteClauses(b *ast.BlockStmt) {
	for _, c := range b.List {
		switch cc := c.(type) {
		case *ast.CaseClause:
			cc.Body = in.rewriteList(cc.Body)
		case *ast.CommClause:
			cc.Body = in.rewriteList(cc.Body)
		}
	}
}

func isBlank(e ast.Expr) bool {
	id, ok := e.(*ast.Ident)
	return e == nil || (ok && id.Name == "_")
}

// capturedOrAddressed reports whether a loop variable is captured by a closure
// or has its address taken inside the body (per-loop vs per-iteration matters).
func (in *inst) capturedOrAddressed(body *ast.BlockStmt, vars ...ast.Expr) bool {
	objs := map[types.Object]bool{}
	for _, v := range vars {
		if id, ok := v.(*ast.Ident); ok && id.Name != "_" {
			if o := in.info.Defs[id]; o != nil {
				objs[o] = true
			}
		}
	}
	if len(objs) == 0 {
		return false
	}
	bad := false
	var walk func(n ast.Node, inLit bool)
	walk = func(n ast.Node, inLit bool) {
		ast.Inspect(n, func(m ast.Node) bool {
			switch y := m.(type) {
			case *ast.FuncLit:
				if !inLit {
					walk(y.Body, true)
					return false
				}
			case *ast.UnaryExpr:
				if y.Op == token.AND {
					if id := rootIdent(y.X); id != nil && objs[in.info.Uses[id]] {
						bad = true
					}
				}
			case *ast.Ident:
				if inLit && objs[in.info.Uses[y]] {
					bad = true
				}
			}
			return true
		})
	}
	walk(body, false)
	return bad
}

func (in *inst) rewriteRange(rs *ast.RangeStmt, label *ast.LabeledStmt) ast.Stmt {
	tv, ok := in.info.Types[rs.X]
	isMap := false
	if ok {
		_, isMap = tv.Type.Underlying().(*types.Map)
	}
	in.rewriteBlock(rs.Body)
	step := in.stepStmt(rs.Pos(), "ClassLoop")
	if !isMap {
		rs.Body.List = append([]ast.Stmt{step}, rs.Body.List...)
		if label != nil {
			return label
		}
		return rs
	}
	if rs.Tok == token.DEFINE && in.capturedOrAddressed(rs.Body, rs.Key, rs.Value) {
		p := in.fset.Position(rs.Pos())
		fatal("%s:%d: map range variable captured by a closure or address taken; cannot rewrite soundly", p.Filename, p.Line)
	}
	in.tmp++
	in.usedRT = true
	mName := fmt.Sprintf("zzm%d", in.tmp)
	kName := fmt.Sprintf("zzk%d", in.tmp)
	vName := fmt.Sprintf("zzv%d", in.tmp)
	okName := fmt.Sprintf("zzok%d", in.tmp)
	id := ast.NewIdent

	assignM := &ast.AssignStmt{Lhs: []ast.Expr{id(mName)}, Tok: token.DEFINE, Rhs: []ast.Expr{rs.X}}
	keysCall := &ast.CallExpr{Fun: &ast.SelectorExpr{X: id(rtAlias), Sel: id("Keys")}, Args: []ast.Expr{id(mName)}}
	lookup := func(k string) ast.Expr { return &ast.IndexExpr{X: id(mName), Index: id(k)} }
	skip := &ast.IfStmt{Cond: &ast.UnaryExpr{Op: token.NOT, X: id(okName)}, Body: &ast.BlockStmt{List: []ast.Stmt{&ast.BranchStmt{Tok: token.CONTINUE}}}}

	var head []ast.Stmt
	loopKey := kName
	switch {
	case rs.Tok == token.DEFINE || rs.Tok == token.ILLEGAL:
		if !isBlank(rs.Key) {
			loopKey = rs.Key.(*ast.Ident).Name
		}
		valName := "_"
		if !isBlank(rs.Value) {
			valName = rs.Value.(*ast.Ident).Name
		}
		// v, ok := m[k]; if !ok { continue }
		head = append(head, &ast.AssignStmt{Lhs: []ast.Expr{id(valName), id(okName)}, Tok: token.DEFINE, Rhs: []ast.Expr{lookup(loopKey)}}, skip)
	case rs.Tok == token.ASSIGN:
		head = append(head, &ast.AssignStmt{Lhs: []ast.Expr{id(vName), id(okName)}, Tok: token.DEFINE, Rhs: []ast.Expr{lookup(kName)}}, skip)
		if !isBlank(rs.Key) {
			head = append(head, &ast.AssignStmt{Lhs: []ast.Expr{rs.Key}, Tok: token.ASSIGN, Rhs: []ast.Expr{id(kName)}})
		}
		if !isBlank(rs.Value) {
			head = append(head, &ast.AssignStmt{Lhs: []ast.Expr{rs.Value}, Tok: token.ASSIGN, Rhs: []ast.Expr{id(vName)}})
		} else {
			head = append(head, &ast.AssignStmt{Lhs: []ast.Expr{id("_")}, Tok: token.ASSIGN, Rhs: []ast.Expr{id(vName)}})
		}
	}
	body := &ast.BlockStmt{List: append(append([]ast.Stmt{step}, head...), rs.Body.List...)}
	newFor := &ast.RangeStmt{Key: id("_"), Value: id(loopKey), Tok: token.DEFINE, X: keysCall, Body: body}
	var loop ast.Stmt = newFor
	if label != nil {
		label.Stmt = newFor
		loop = label
	}
	return &ast.BlockStmt{List: []ast.Stmt{assignM, loop}}
}

// writeGenerated emits the site table and SimReset for the package.
func (in *inst) writeGenerated(files []*ast.File) {
	var b bytes.Buffer
	fmt.Fprintf(&b, "// Code generated by simgen. DO NOT EDIT.\n\npackage %s\n\n", in.pkg.Name())
	fmt.Fprintf(&b, "import %s %q\n\n", rtAlias, rtPath)
	fmt.Fprintf(&b, "func init() {\n\t%s.RegisterSites(%d, []string{\n", rtAlias, in.spec.siteBase)
	for _, s := range in.sites {
		fmt.Fprintf(&b, "\t\t%q,\n", s)
	}
	fmt.Fprintf(&b, "\t})\n")
	for _, fn := range in.initFuns {
		fmt.Fprintf(&b, "\t%s()\n", fn)
	}
	fmt.Fprintf(&b, "}\n\n")
	// R4: SimReset puts every mutable package-level variable back into the state it
	// has at process start, so that each simulated run is a function of its scenario
	// only: sync.Map caches become cold, memo tables empty, sync.Once/Mutex fresh,
	// lazily initialised variables uninitialised again.  Variables whose initialiser
	// is not a side-effect-free literal/make/new expression are left alone (listed).
	fmt.Fprintf(&b, "// SimReset restores the package's process-wide mutable state to its initial value.\nfunc SimReset() {\n")
	sc := in.pkg.Scope()
	imports := map[string]string{}
	inits := map[string]ast.Expr{}
	for _, f := range files {
		for _, d := range f.Decls {
			gd, ok := d.(*ast.GenDecl)
			if !ok || gd.Tok != token.VAR {
				continue
			}
			for _, sp := range gd.Specs {
				vs := sp.(*ast.ValueSpec)
				if len(vs.Values) == len(vs.Names) {
					for i, n := range vs.Names {
						inits[n.Name] = vs.Values[i]
					}
				}
			}
		}
	}
	var skipped []string
	// Go's own initialisation order first (an initialiser may use variables initialised before
	// it), then the variables that have no initialiser, by name.
	var order []string
	seenName := map[string]bool{}
	for _, ini := range in.info.InitOrder {
		for _, v := range ini.Lhs {
			if v.Parent() == sc && !seenName[v.Name()] {
				seenName[v.Name()] = true
				order = append(order, v.Name())
			}
		}
	}
	for _, name := range sc.Names() {
		if !seenName[name] {
			order = append(order, name)
		}
	}
	for _, name := range order {
		v, ok := sc.Lookup(name).(*types.Var)
		if !ok || name == "_" {
			continue
		}
		isSyncMap := false
		if nt, ok := v.Type().(*types.Named); ok && nt.Obj().Pkg() != nil && nt.Obj().Pkg().Path() == "sync" {
			switch nt.Obj().Name() {
			case "Map":
				isSyncMap = true
			case "Pool":
				continue // per-world state lives in the simulator
			}
		}
		if !isSyncMap && !in.mutable[v] {
			continue
		}
		init, has := inits[name]
		switch {
		case !has || isSyncMap:
			fmt.Fprintf(&b, "\tzzZero(&%s)\n", name)
		case pureInit(init) || in.reevaluable(init):
			// (a call of a function of this package or of a known constructor is evaluated again,
			// exactly as at process start)
			var eb bytes.Buffer
			if err := format.Node(&eb, in.fset, init); err != nil {
				skipped = append(skipped, name)
				continue
			}
			ast.Inspect(init, func(n ast.Node) bool {
				if id, ok := n.(*ast.Ident); ok {
					if pn, ok := in.info.Uses[id].(*types.PkgName); ok {
						imports[id.Name] = pn.Imported().Path()
					} else if id.Name == rtAlias {
						imports[rtAlias] = rtPath
					}
				}
				return true
			})
			fmt.Fprintf(&b, "\t%s = %s\n", name, eb.String())
		default:
			skipped = append(skipped, name)
		}
	}
	for _, n := range skipped {
		fmt.Fprintf(&b, "\t// not reset (initialiser is not a plain literal): %s\n", n)
	}
	for _, fn := range in.initFuns {
		fmt.Fprintf(&b, "\t%s() // the package's init function, as at process start\n", fn)
	}
	fmt.Fprintf(&b, "}\n\nfunc zzZero[T any](p *T) {\n\tvar z T\n\t*p = z\n}\n")
	src := b.String()
	delete(imports, rtAlias)
	var imps []string
	for alias, path := range imports {
		imps = append(imps, fmt.Sprintf("import %s %q", alias, path))
	}
	sort.Strings(imps)
	if len(imps) > 0 {
		src = strings.Replace(src, "import "+rtAlias, strings.Join(imps, "\n")+"\nimport "+rtAlias, 1)
	}
	out, err := format.Source([]byte(src))
	if err != nil {
		fatal("generated file: %v", err)
	}
	must(os.WriteFile(filepath.Join(in.spec.outDir, "zz_simgen_generated.go"), out, 0o644))
}

var pureConstructors = map[string]bool{
	"strings.NewReplacer": true, "errors.New": true, "fmt.Errorf": true, "fmt.Sprintf": true, "regexp.MustCompile": true,
	"reflect.TypeOf": true, "reflect.ValueOf": true, "bytes.NewBufferString": true, "bytes.NewBuffer": true, "strings.NewReader": true,
}

// reevaluable reports whether an initialiser may be evaluated again to restore the initial
// state: calls of functions declared in this package (they ran once at process start with the
// same inputs) and of known constructors, over literals, constants and package-level variables.
func (in *inst) reevaluable(e ast.Expr) bool {
	switch x := e.(type) {
	case *ast.BasicLit:
		return true
	case *ast.Ident:
		switch in.info.Uses[x].(type) {
		case *types.Const, *types.Nil, *types.Var, *types.TypeName, *types.Builtin, *types.Func:
			return true
		}
		return x.Name == "nil" || x.Name == "true" || x.Name == "false"
	case *ast.ParenExpr:
		return in.reevaluable(x.X)
	case *ast.UnaryExpr:
		return x.Op != token.ARROW && in.reevaluable(x.X)
	case *ast.BinaryExpr:
		return in.reevaluable(x.X) && in.reevaluable(x.Y)
	case *ast.StarExpr:
		return in.reevaluable(x.X)
	case *ast.SelectorExpr:
		if id, ok := x.X.(*ast.Ident); ok {
			if _, isPkg := in.info.Uses[id].(*types.PkgName); isPkg {
				switch in.info.Uses[x.Sel].(type) {
				case *types.Const, *types.Var, *types.TypeName:
					return true
				}
				return pureConstructors[id.Name+"."+x.Sel.Name]
			}
		}
		return in.reevaluable(x.X)
	case *ast.CompositeLit:
		for _, el := range x.Elts {
			if kv, ok := el.(*ast.KeyValueExpr); ok {
				el = kv.Value
			}
			if !in.reevaluable(el) {
				return false
			}
		}
		return true
	case *ast.FuncLit:
		return true
	case *ast.ArrayType, *ast.MapType, *ast.StructType, *ast.InterfaceType, *ast.FuncType, *ast.ChanType:
		return true
	case *ast.IndexExpr:
		return in.reevaluable(x.X) && in.reevaluable(x.Index)
	case *ast.CallExpr:
		for _, a := range x.Args {
			if !in.reevaluable(a) {
				return false
			}
		}
		switch f := x.Fun.(type) {
		case *ast.Ident:
			switch o := in.info.Uses[f].(type) {
			case *types.Builtin, *types.TypeName:
				return true
			case *types.Func:
				return o.Pkg() == in.pkg
			}
			return false
		case *ast.SelectorExpr:
			if id, ok := f.X.(*ast.Ident); ok {
				if _, isPkg := in.info.Uses[id].(*types.PkgName); isPkg {
					if _, isType := in.info.Uses[f.Sel].(*types.TypeName); isType {
						return true // conversion
					}
					return pureConstructors[id.Name+"."+f.Sel.Name]
				}
			}
			return false
		case *ast.ParenExpr, *ast.ArrayType, *ast.MapType, *ast.StarExpr:
			return true // conversion to a composite type
		}
		return false
	}
	return false
}

// pureInit reports whether an initialiser can be re-evaluated without side effects:
// literals, composite literals, make/new, nil/true/false, unary/binary expressions of those.
func pureInit(e ast.Expr) bool {
	switch x := e.(type) {
	case *ast.BasicLit:
		return true
	case *ast.Ident:
		return x.Name == "nil" || x.Name == "true" || x.Name == "false"
	case *ast.CompositeLit:
		for _, el := range x.Elts {
			if kv, ok := el.(*ast.KeyValueExpr); ok {
				if !pureInit(kv.Value) {
					return false
				}
				continue
			}
			if !pureInit(el) {
				return false
			}
		}
		return true
	case *ast.UnaryExpr:
		return pureInit(x.X)
	case *ast.BinaryExpr:
		return pureInit(x.X) && pureInit(x.Y)
	case *ast.ParenExpr:
		return pureInit(x.X)
	case *ast.CallExpr:
		if id, ok := x.Fun.(*ast.Ident); ok && (id.Name == "make" || id.Name == "new") {
			return true
		}
		// conversions of literals such as int64(0), json.Delim('{')
		if len(x.Args) == 1 {
			if _, lit := x.Args[0].(*ast.BasicLit); lit {
				return true
			}
		}
		return false
	case *ast.FuncLit:
		return true
	}
	return false
}
