module verif.local/sim

go 1.22
