// drv is the check driver: it instruments a scratch copy of /repo's working
// tree, builds the simulation workers, runs them on all cores, aggregates the
// evidence, minimised replay files and known findings, and prints the verdict.
//
//	drv -prop C09 -tier quick            exit 0 held | 1 VIOLATION | 2 machinery trouble
//	drv -prop C09 -replay FILE
package main

import (
	"bufio"
	"bytes"
	"encoding/binary"
	"encoding/json"
	"flag"
	"fmt"
	"io"
	"os"
	"os/exec"
	"path/filepath"
	"runtime"
	"sort"
	"strconv"
	"strings"
	"sync"
	"syscall"
	"time"
)

// verifDir is the directory that holds bin/, sim/, evidence/ ... (parent of the directory of this executable).
var verifDir = "/verif"

type phase struct {
	engine   string
	race     bool
	workers  int
	budgetS  float64
	runs     int64
	extra    []string
	mustDone bool // engine must complete its enumeration (deadline is only a safety net)
}

type propPlan struct {
	level      string
	phases     [][]phase // groups run one after the other; phases inside a group run concurrently
	needCLI    bool
	rule       string
	assume     []string
	real, stub []string
}

func die(code int, format string, a ...any) {
	fmt.Fprintf(os.Stderr, "drv: "+format+"\n", a...)
	cleanup()
	os.Exit(code)
}

var scratch string
var keepScratch bool

func cleanup() {
	if scratch != "" && !keepScratch {
		os.RemoveAll(scratch)
	}
}

func goEnv() []string {
	env := os.Environ()
	env = append(env, "GOFLAGS=-mod=mod", "GOPROXY=off", "GOSUMDB=off", "GOTOOLCHAIN=local", "CGO_ENABLED=1")
	return env
}

func run(dir string, env []string, name string, args ...string) (string, error) {
	cmd := exec.Command(name, args...)
	cmd.Dir = dir
	cmd.Env = env
	var out bytes.Buffer
	cmd.Stdout = &out
	cmd.Stderr = &out
	err := cmd.Run()
	return out.String(), err
}

func plan(prop, tier string, ncpu int, budgetOverride float64) *propPlan {
	q := tier == "quick"
	b := func(quick, thorough float64) float64 {
		if budgetOverride > 0 {
			return budgetOverride
		}
		if q {
			return quick
		}
		return thorough
	}
	commonReal := []string{"every line of v5/*.go, v5/internal/json/*.go and the legacy patch.go/merge.go/errors.go, compiled from the working tree after the semantics-preserving rewrites R1-R7", "sync.Map", "Go runtime and standard library"}
	commonStub := []string{"sync.Pool -> simrt.Pool (fresh/LIFO/FIFO/arbitrary/adversarial reuse, eviction)", "sync.WaitGroup/Mutex/RWMutex/Once/Cond -> simrt shims with simulated blocking", "go statements, channel operations and select of library code -> child tasks, simulated channels and simrt.Select (none in the unchanged tree)", "order of `range` over maps -> simrt.Keys (sorted/reversed/rotated/permuted)", "choice of which caller goroutine runs -> seeded cooperative scheduler"}
	switch prop {
	case "C09":
		return &propPlan{level: "exploration", real: commonReal, stub: commonStub,
			phases: [][]phase{
				{{engine: "hist3", workers: ncpu, budgetS: b(120, 900), runs: 1 << 40, mustDone: true}},
				{{engine: "hist", workers: ncpu, budgetS: b(40, 900), runs: 1 << 40}}},
			rule:   "Each evaluation is one simulated sequential history of 2-40 API calls (DecodePatch, Apply*, MergePatch, MergeMergePatches, CreateMergePatch, Equal, accessors) over shared buffers and reused Patch values, generated from run_seed = mix(VERIF_SEED, property, index), executed against the instrumented library in a world whose sync.Pool behaviour, map iteration order, cache temperature and caller buffer reuse are drawn per run; every call is compared with the same call run alone in a pristine world. A history is non-trivial when a pooled decoder/encoder/scanner state was actually recycled between calls (pool_reuse > 0) or a decoded Patch was applied more than once; distinct = distinct hash over (target, pool/map policies, every call with its argument texts and options).",
			assume: []string{"the oracle is the implementation itself run alone in a pristine world: C09 is relational (same call => same outcome), a deterministically wrong result is C01/C02's business", "pool and map-order behaviours explored are within the documented contracts of sync.Pool and Go map iteration", "sampling, not enumeration: a clean batch is evidence, not proof"}}
	case "C04":
		return &propPlan{level: "exploration", real: commonReal, stub: commonStub,
			phases: [][]phase{
				{{engine: "enum", workers: ncpu, budgetS: b(240, 3000), runs: 1 << 40, mustDone: true}},
				{{engine: "hist", workers: max(1, ncpu-4), budgetS: b(30, 700), runs: 1 << 40}, {engine: "conc", workers: min(4, ncpu), budgetS: b(30, 700), runs: 1 << 40}},
			},
			rule:   "Evaluations are simulated runs: (1) enumerations, complete over their finite spaces in every run (every proper prefix, every single-byte substitution and every insertion from a small alphabet in seeded valid document/patch/merge-patch texts; every ordered pair of a pool of small values; operation templates; all ordered pairs of 160 operations around the empty reference token; put-then-use operation pairs under every copy-limit / negative-index configuration; extreme and oddly spelled array indices; runs of malformed UTF-8; nesting near the limits; all three-call histories over the hist3 pool), each variant fed to every entry point of v5 and of the legacy package; (2) seeded sequential histories and (3) concurrent schedules over generated awkward-but-valid and corrupted inputs (torn, flipped byte, dropped/duplicated/swapped chunk, zero-filled range, spliced). Invariant: no call panics, exceeds its step budget (3*10^6 + 40*n^2 logical steps for n input bytes) or deadlocks - whether run alone or inside the history/schedule with recycled pool state. Non-trivial = the scenario passes at least one corrupted or awkward input to an entry point; distinct = distinct hash over calls with their argument texts and options.",
			assume: []string{"stated-domain exclusions honoured by construction: options are never nil, Patch values come only from DecodePatch, generated indices stay <= 2000", "a hang is defined as exceeding a quadratic step bound in the input size; slow-but-polynomial behaviour on deeply nested input is not reported", "memory exhaustion and stack overflow beyond nesting 10^4 are not reachable (Go offers no allocation-failure seam)"}}
	case "C10":
		return &propPlan{level: "exploration", real: append(commonReal, "the Go race detector (predictive use on a serialised execution: the simulator adds no happens-before edges of its own)"), stub: commonStub,
			phases: [][]phase{{{engine: "conc", workers: ncpu / 2, budgetS: b(50, 1000), runs: 1 << 40, extra: sched(q)}, {engine: "conc", race: true, workers: ncpu - ncpu/2, budgetS: b(50, 1000), runs: 1 << 40, extra: sched(q)}}},
			rule:   "Each scenario has 2-4 (rarely 8) caller tasks with 1-6 API calls each over shared read-only inputs (one or two Patches decoded before the tasks start, common documents) and private ones; it is executed once sequentially and then under several seeded schedules (uniform random pre-emption with p in {0.02,0.1,0.3,0.6}, PCT with 1-4 priority change points, site-class swarm), in a plain build and in a -race build whose detector sees only the library's own synchronisation. Oracles: every call equals its run-alone outcome; no race report; no deadlock; shared inputs and the shared Patch unchanged. An evaluation is one executed schedule; non-trivial = at least one context switch happened inside a library call while another task's call was in flight; distinct = distinct (scenario hash, full event trace hash incl. every switch).",
			assume: []string{"pre-emption happens only at instrumented yield points (pool, sync.Map, wait-group, mutable package variables, every function entry and loop head of the jsonpatch packages); pre-emption inside uninstrumented standard-library code is not explored (races there are still detected)", "the race detector keeps a bounded access history per word: a race can be missed, never invented", "package defaults SupportNegativeIndices/AccumulatedCopySizeLimit are not written concurrently with calls (caller-side race, outside C10)"}}
	case "C17":
		return &propPlan{level: "exploration", real: []string{"every line of v5/internal/json (instrumented copy)", "encoding/json of the building toolchain as second oracle", "Go runtime"}, stub: append(commonStub, "io.Reader/io.Writer of Decoder/Encoder -> scripted SimReader/SimWriter (chunking, zero-length reads, EOF with data, injected errors, truncation, short writes)", "user Marshaler/Unmarshaler/TextMarshaler callbacks -> simulator-owned types failing at seeded points"),
			phases: [][]phase{{{engine: "codec", workers: ncpu, budgetS: b(40, 900), runs: 1 << 40}}},
			rule:   "Evaluations are simulated codec runs of three kinds: Decoder over a scripted reader, Encoder over a scripted writer (both differential against encoding/json under the identical script, plus chunking-invariance), and histories of the function API (Unmarshal*, Marshal*, Valid, Compact, Indent, HTMLEscape) under pool faults and failing callbacks, compared with run-alone results, with encoding/json, with round-trip and key-order oracles. Non-trivial = at least one injected I/O behaviour or pooled-state reuse fired and at least one value was decoded or encoded; distinct = distinct hash over (payload bytes, script, call sequence).",
			assume: []string{"encoding/json of go1.23.5 is newer than the fork's base; known release differences are normalised narrowly (listed in DESIGN.md)", "struct types are limited to what reflect.StructOf can build"}}
	case "C20":
		return &propPlan{level: "fault_enumeration", needCLI: true, real: []string{"the two unmodified json-patch command binaries built from the working tree (v5/cmd/json-patch and the staged legacy cmd/json-patch)", "kernel pipes and file system", "go-flags", "the library (uninstrumented inside the binaries; instrumented copy as in-process oracle)"}, stub: []string{"nothing inside the process under test; the environment (stdin stream, patch files, argv) is constructed by the harness"},
			phases: [][]phase{{{engine: "cli", workers: ncpu, budgetS: b(45, 600), runs: 1 << 40}}},
			rule:   "Each evaluation executes a real json-patch binary as a child process in a private directory populated from the seed: stdin document (valid, other roots, empty, torn, malformed) and an ordered list of 0-5 -p arguments, each valid-and-applicable, failing at operation k, wrong shape, malformed, or a fault (absent path, directory, dangling symlink, stat-ok-read-fails, empty, torn). The quick tier first enumerates completely every fault kind x every position in lists of length <= 3 and every permutation of three order-sensitive patches, then runs seeded random scenarios. Oracle: in-process fold of DecodePatch/Apply with the library from the same tree: success => exit 0 and stdout byte-identical; otherwise exit != 0, empty stdout, non-empty stderr. Non-trivial = at least one -p argument; distinct = distinct hash over (binary, stdin bytes, argument list with file contents/states, flag spelling).",
			assume: []string{"the sandbox runs as root, so EACCES cannot be produced; /proc/self/mem stands in for a file that passes stat and fails read", "stdout closed/full and signals are not injected (the statement is silent about them)"}}
	}
	return nil
}

// sched: schedules executed per concurrent scenario (the thorough tier spends more on each scenario).
func sched(quick bool) []string {
	if quick {
		return []string{"-schedules", "6"}
	}
	return []string{"-schedules", "20"}
}

func min(a, b int) int {
	if a < b {
		return a
	}
	return b
}
func max(a, b int) int {
	if a > b {
		return a
	}
	return b
}

// ---------------------------------------------------------------------------

type vioRecord struct {
	Sig         string `json:"signature"`
	Class       string `json:"class"`
	Detail      string `json:"detail"`
	Count       int64  `json:"count"`
	FirstSeed   uint64 `json:"first_run_seed"`
	ReplayFile  string `json:"replay_file"`
	Calls       int    `json:"calls_in_replay"`
	ShrinkTries int    `json:"shrink_tries"`
	race        bool
}

type summary struct {
	Property    string            `json:"property"`
	Engine      string            `json:"engine"`
	Worker      int               `json:"worker"`
	Race        bool              `json:"race_build"`
	Runs        int64             `json:"runs"`
	Scenarios   int64             `json:"scenarios"`
	Calls       int64             `json:"calls"`
	Pristine    int64             `json:"pristine_evals"`
	Steps       int64             `json:"sim_steps"`
	Yields      int64             `json:"yields"`
	WallS       float64           `json:"wall_s"`
	Nontrivial  int64             `json:"nontrivial_runs"`
	Faults      map[string]int64  `json:"faults_fired"`
	Probes      map[string]int64  `json:"probes"`
	OutClasses  map[string]int64  `json:"outcome_classes"`
	PerTarget   map[string]int64  `json:"runs_per_target"`
	PerFn       map[string]int64  `json:"calls_per_function"`
	Violations  []*vioRecord      `json:"violations"`
	Samples     []json.RawMessage `json:"samples"`
	TraceHashes map[string]string `json:"trace_hashes"`
	FirstSeed   uint64            `json:"first_run_seed"`
	LastSeed    uint64            `json:"last_run_seed"`
	HashFile    string            `json:"hash_file"`
	Exhaustive  []string          `json:"exhaustive_subspaces"`
	Enum        map[string]int64  `json:"enumerations"`
	SimReads    int64             `json:"sim_reads"`
	SimWrites   int64             `json:"sim_writes"`
	Machinery   []string          `json:"machinery_trouble"`
}

type known struct {
	kind, prop, sig, text string
}

func loadKnown() []known {
	var out []known
	f, err := os.Open(filepath.Join(verifDir, "known-findings.txt"))
	if err != nil {
		return nil
	}
	defer f.Close()
	sc := bufio.NewScanner(f)
	sc.Buffer(make([]byte, 1<<20), 1<<20)
	for sc.Scan() {
		l := strings.TrimSpace(sc.Text())
		if l == "" || strings.HasPrefix(l, "#") {
			continue
		}
		var k known
		switch {
		case strings.HasPrefix(l, "known:"):
			k.kind = "known"
			l = strings.TrimSpace(strings.TrimPrefix(l, "known:"))
		case strings.HasPrefix(l, "fixed:"):
			k.kind = "fixed"
			l = strings.TrimSpace(strings.TrimPrefix(l, "fixed:"))
		default:
			continue
		}
		fields := strings.Fields(l)
		rest := []string{}
		for _, f := range fields {
			switch {
			case strings.HasPrefix(f, "property=") && k.prop == "":
				k.prop = strings.TrimPrefix(f, "property=")
			case strings.HasPrefix(f, "sig=") && k.sig == "":
				k.sig = strings.TrimPrefix(f, "sig=")
			default:
				rest = append(rest, f)
			}
		}
		k.text = strings.Join(rest, " ")
		out = append(out, k)
	}
	return out
}

func main() {
	prop := flag.String("prop", "", "property id")
	tier := flag.String("tier", "quick", "quick | thorough")
	replay := flag.String("replay", "", "replay file")
	keep := flag.Bool("keep", false, "keep the scratch directory")
	repo := flag.String("repo", "/repo", "repository working tree")
	flag.String("outdir", "", "where evidence/ and replays/ are written (default: the verif directory; a scratch directory when -repo is not /repo, so that runs against modified copies never overwrite the evidence of the real tree)")
	flag.Parse()
	outFlag := flag.Lookup("outdir").Value.String()
	keepScratch = *keep
	start := time.Now()
	if exe, err := os.Executable(); err == nil {
		if d := filepath.Dir(filepath.Dir(exe)); d != "" {
			if _, err := os.Stat(filepath.Join(d, "sim", "harness")); err == nil {
				verifDir = d
			}
		}
	}

	resultDir := verifDir
	if outFlag != "" {
		resultDir = outFlag
	} else if rp, err := filepath.Abs(*repo); err == nil && filepath.Clean(rp) != "/repo" {
		b := os.Getenv("VERIF_SCRATCH")
		if b == "" {
			b = "/var/tmp"
		}
		resultDir = filepath.Join(b, "verif-altrepo-results")
	}

	seed := uint64(1)
	if s := os.Getenv("VERIF_SEED"); s != "" {
		v, err := strconv.ParseUint(s, 10, 64)
		if err != nil {
			if iv, err2 := strconv.ParseInt(s, 10, 64); err2 == nil {
				v = uint64(iv)
			} else {
				die(2, "bad VERIF_SEED %q", s)
			}
		}
		seed = v
	}
	if t := os.Getenv("VERIF_TIER"); t != "" && *tier == "" {
		*tier = t
	}
	budgetOverride := 0.0
	if s := os.Getenv("VERIF_BUDGET_S"); s != "" {
		budgetOverride, _ = strconv.ParseFloat(s, 64)
	}
	ncpu := runtime.NumCPU()
	if s := os.Getenv("VERIF_WORKERS"); s != "" {
		if v, err := strconv.Atoi(s); err == nil && v > 0 {
			ncpu = v
		}
	}
	if ncpu > 16 {
		ncpu = 16
	}
	fmt.Printf("VERIF_SEED=%d property=%s tier=%s workers=%d\n", seed, *prop, *tier, ncpu)

	var replayHead struct {
		Property string            `json:"property"`
		Engine   string            `json:"engine"`
		Build    map[string]string `json:"build"`
		Viol     struct {
			Sig    string `json:"signature"`
			Class  string `json:"class"`
			Detail string `json:"detail"`
		} `json:"violation"`
	}
	if *replay != "" {
		b, err := os.ReadFile(*replay)
		if err != nil {
			die(2, "replay file: %v", err)
		}
		if err := json.Unmarshal(b, &replayHead); err != nil {
			die(2, "replay file: %v", err)
		}
		if *prop == "" {
			*prop = replayHead.Property
		}
	}
	pl := plan(*prop, *tier, ncpu, budgetOverride)
	if pl == nil {
		die(2, "property %q has no check (not applicable or unknown)", *prop)
	}

	// scratch copy, instrumented
	base := os.Getenv("VERIF_SCRATCH")
	if base == "" {
		base = "/var/tmp"
	}
	scratch = filepath.Join(base, fmt.Sprintf("verif-%s-%d", *prop, os.Getpid()))
	os.RemoveAll(scratch)
	if err := os.MkdirAll(scratch, 0o755); err != nil {
		die(2, "scratch: %v", err)
	}
	defer cleanup()
	simgen := filepath.Join(verifDir, "bin", "simgen")
	if out, err := run(verifDir, goEnv(), simgen, "-repo", *repo, "-simrt", filepath.Join(verifDir, "sim", "simrt"), "-harness", filepath.Join(verifDir, "sim", "harness"), "-out", scratch); err != nil {
		die(2, "cannot instrument the working tree:\n%s", out)
	}
	treeSha, _ := os.ReadFile(filepath.Join(scratch, "TREE_SHA256"))
	tree := strings.TrimSpace(string(treeSha))

	needRace := false
	for _, g := range pl.phases {
		for _, ph := range g {
			if ph.race {
				needRace = true
			}
		}
	}
	if *replay != "" {
		needRace = replayHead.Build["race"] == "true"
	}
	v5dir := filepath.Join(scratch, "v5")
	var wg sync.WaitGroup
	var buildErr [4]string
	build := func(i int, dir string, args ...string) {
		wg.Add(1)
		go func() {
			defer wg.Done()
			if out, err := run(dir, goEnv(), "go", args...); err != nil {
				buildErr[i] = out + err.Error()
			}
		}()
	}
	if *replay == "" || !needRace {
		build(0, v5dir, "build", "-trimpath", "-o", filepath.Join(scratch, "worker"), "./zzverif/worker")
	}
	if needRace {
		build(1, v5dir, "build", "-race", "-trimpath", "-o", filepath.Join(scratch, "worker-race"), "./zzverif/worker")
	}
	binDir := filepath.Join(scratch, "bin")
	if pl.needCLI {
		os.MkdirAll(binDir, 0o755)
		build(2, filepath.Join(scratch, "pristine", "v5"), "build", "-trimpath", "-o", filepath.Join(binDir, "json-patch-v5"), "./cmd/json-patch")
		build(3, filepath.Join(scratch, "pristine", "legacy"), "build", "-trimpath", "-o", filepath.Join(binDir, "json-patch-legacy"), "./cmd/json-patch")
	}
	wg.Wait()
	for _, e := range buildErr {
		if e != "" {
			die(2, "cannot build the instrumented tree (this is not a violation):\n%s", e)
		}
	}
	fmt.Printf("instrumented and built in %.1fs (tree %s)\n", time.Since(start).Seconds(), tree[:12])

	outDir := filepath.Join(scratch, "out")
	repDir := filepath.Join(scratch, "replays")
	os.MkdirAll(outDir, 0o755)
	os.MkdirAll(repDir, 0o755)
	kf := loadKnown()

	if *replay != "" {
		w := filepath.Join(scratch, "worker")
		if needRace {
			w = filepath.Join(scratch, "worker-race")
		}
		cmd := exec.Command(w, "-mode", "replay", "-file", *replay, "-bindir", binDir)
		cmd.Env = append(os.Environ(), "GORACE=log_path="+filepath.Join(outDir, "race")+" halt_on_error=0 exitcode=0")
		var out bytes.Buffer
		cmd.Stdout = &out
		cmd.Stderr = os.Stderr
		err := cmd.Run()
		fmt.Print(out.String())
		if strings.Contains(out.String(), "\nREPRODUCED property=") {
			for _, k := range kf {
				if k.kind == "known" && k.prop == *prop && k.sig == replayHead.Viol.Sig {
					fmt.Printf("KNOWN-FINDING: property=%s %s\n", *prop, k.text)
					cleanup()
					os.Exit(0)
				}
			}
			fmt.Printf("VIOLATION property=%s replay=%s\n", *prop, *replay)
			cleanup()
			os.Exit(1)
		}
		if err != nil {
			if _, ok := err.(*exec.ExitError); !ok {
				die(2, "replay: %v", err)
			}
			if cmd.ProcessState.ExitCode() == 2 {
				die(2, "replay failed")
			}
		}
		fmt.Println("replay: the violation does not occur on this tree")
		return
	}

	// run the phases
	shrinkS := 15
	if *tier == "thorough" {
		shrinkS = 120
	}
	var sums []*summary
	phaseTrouble := ""
	for gi, group := range pl.phases {
		var pwg sync.WaitGroup
		var mu sync.Mutex
		trouble := ""
		for _, ph := range group {
			for k := 0; k < ph.workers; k++ {
				pwg.Add(1)
				go func(ph phase, k int) {
					defer pwg.Done()
					w := filepath.Join(scratch, "worker")
					tag := ph.engine
					if ph.race {
						w = filepath.Join(scratch, "worker-race")
						tag += "-race"
					}
					args := []string{"-mode", "run", "-prop", *prop, "-engine", ph.engine, "-tier", *tier, "-seed", fmt.Sprint(seed), "-worker", fmt.Sprint(k), "-nworkers", fmt.Sprint(ph.workers),
						"-runs", fmt.Sprint(ph.runs), "-budget_s", fmt.Sprint(ph.budgetS), "-out", outDir, "-replays", repDir, "-shrink_s", fmt.Sprint(shrinkS), "-tree", tree, "-bindir", binDir}
					args = append(args, ph.extra...)
					cmd := exec.Command(w, args...)
					cmd.Env = append(os.Environ(), "GORACE=log_path="+filepath.Join(outDir, fmt.Sprintf("race.%s.%d", tag, k))+" halt_on_error=0 exitcode=0", "GOMAXPROCS="+[]string{"1", "4", "16"}[k%3])
					cmd.Dir = scratch
					var errb bytes.Buffer
					cmd.Stderr = &errb
					cmd.Stdout = io.Discard
					cmd.SysProcAttr = &syscall.SysProcAttr{Setpgid: true}
					if err := cmd.Start(); err != nil {
						mu.Lock()
						trouble += fmt.Sprintf("worker %s/%d: %v\n", tag, k, err)
						mu.Unlock()
						return
					}
					done := make(chan error, 1)
					go func() { done <- cmd.Wait() }()
					// watchdog: budget + minimisation allowance
					limit := time.Duration((ph.budgetS + float64(shrinkS)*6 + 120) * float64(time.Second))
					select {
					case err := <-done:
						if err != nil {
							mu.Lock()
							trouble += fmt.Sprintf("worker %s/%d failed: %v\n%s\n", tag, k, err, tail(errb.String(), 4000))
							mu.Unlock()
						}
					case <-time.After(limit):
						syscall.Kill(-cmd.Process.Pid, syscall.SIGKILL)
						mu.Lock()
						trouble += fmt.Sprintf("worker %s/%d exceeded the watchdog (%v) and was killed\n", tag, k, limit)
						mu.Unlock()
					}
				}(ph, k)
			}
		}
		pwg.Wait()
		if trouble != "" {
			// A killed or crashed worker is machinery trouble - unless replay files show why:
			// violations found before it died are verified below in fresh processes and reported.
			phaseTrouble += fmt.Sprintf("phase group %d: %s", gi, trouble)
		}
	}
	files, _ := filepath.Glob(filepath.Join(outDir, "summary.*.json"))
	sort.Strings(files)
	for _, f := range files {
		b, err := os.ReadFile(f)
		if err != nil {
			die(2, "%v", err)
		}
		var s summary
		if err := json.Unmarshal(b, &s); err != nil {
			die(2, "summary %s: %v", f, err)
		}
		sums = append(sums, &s)
	}
	if len(sums) == 0 && phaseTrouble == "" {
		die(2, "no worker summaries")
	}
	if phaseTrouble != "" {
		// harvest the replay files of workers that never wrote a summary
		known := map[string]bool{}
		for _, s := range sums {
			for _, v := range s.Violations {
				known[v.ReplayFile] = true
			}
		}
		orphans, _ := filepath.Glob(filepath.Join(repDir, "*.json"))
		sort.Strings(orphans)
		extra := &summary{Engine: "harvested", Faults: map[string]int64{}, Probes: map[string]int64{}, OutClasses: map[string]int64{}, PerTarget: map[string]int64{}, PerFn: map[string]int64{}, TraceHashes: map[string]string{}}
		for _, f := range orphans {
			if known[f] {
				continue
			}
			b, err := os.ReadFile(f)
			if err != nil {
				continue
			}
			var rf struct {
				Build map[string]string `json:"build"`
				Viol  struct {
					Sig    string `json:"signature"`
					Class  string `json:"class"`
					Detail string `json:"detail"`
				} `json:"violation"`
				RunSeed uint64 `json:"run_seed"`
			}
			if json.Unmarshal(b, &rf) != nil || rf.Viol.Sig == "" {
				continue
			}
			extra.Violations = append(extra.Violations, &vioRecord{Sig: rf.Viol.Sig, Class: rf.Viol.Class, Detail: rf.Viol.Detail, Count: 1, FirstSeed: rf.RunSeed, ReplayFile: f, Calls: 1 << 20})
			extra.Race = rf.Build["race"] == "true"
		}
		if len(extra.Violations) > 0 {
			sums = append(sums, extra)
		}
		if len(sums) == 0 {
			die(2, "%s", phaseTrouble)
		}
	}

	// determinism cross-check: the same run index executed by two workers must give the same trace hash
	crossChecked, crossBad := 0, []string{}
	byEngine := map[string]map[string]string{}
	for _, s := range sums {
		key := s.Engine + fmt.Sprint(s.Race)
		if byEngine[key] == nil {
			byEngine[key] = map[string]string{}
		}
		idxs := make([]string, 0, len(s.TraceHashes))
		for idx := range s.TraceHashes {
			idxs = append(idxs, idx)
		}
		sort.Strings(idxs)
		for _, idx := range idxs {
			h := s.TraceHashes[idx]
			if prev, ok := byEngine[key][idx]; ok {
				crossChecked++
				if prev != h {
					crossBad = append(crossBad, fmt.Sprintf("%s run index %s: %s vs %s", key, idx, prev, h))
				}
			} else {
				byEngine[key][idx] = h
			}
		}
	}
	var machinery []string
	for _, s := range sums {
		machinery = append(machinery, s.Machinery...)
	}

	// aggregate
	agg := &summary{Faults: map[string]int64{}, Probes: map[string]int64{}, OutClasses: map[string]int64{}, PerTarget: map[string]int64{}, PerFn: map[string]int64{}, Enum: map[string]int64{}}
	vios := map[string]*vioRecord{}
	var samples []json.RawMessage
	exhaustive := map[string]bool{}
	enumWorkers, enumComplete := 0, 0
	wall := 0.0
	first, last := uint64(0), uint64(0)
	perEngine := map[string]int64{}
	for _, s := range sums {
		agg.Runs += s.Runs
		agg.Scenarios += s.Scenarios
		agg.Calls += s.Calls
		agg.Pristine += s.Pristine
		agg.Steps += s.Steps
		agg.Yields += s.Yields
		agg.Nontrivial += s.Nontrivial
		agg.SimReads += s.SimReads
		agg.SimWrites += s.SimWrites
		tag := s.Engine
		if s.Race {
			tag += "-race"
		}
		perEngine[tag] += s.Runs
		if s.WallS > wall {
			wall = s.WallS
		}
		for k, v := range s.Faults {
			agg.Faults[k] += v
		}
		for k, v := range s.Probes {
			if strings.HasPrefix(k, "max_") {
				if v > agg.Probes[k] {
					agg.Probes[k] = v
				}
				continue
			}
			agg.Probes[k] += v
		}
		for k, v := range s.OutClasses {
			agg.OutClasses[k] += v
		}
		for k, v := range s.PerTarget {
			agg.PerTarget[k] += v
		}
		for k, v := range s.PerFn {
			agg.PerFn[k] += v
		}
		for k, v := range s.Enum {
			agg.Enum[k] += v
		}
		if s.Engine == "enum" || s.Engine == "cli" || s.Engine == "hist3" {
			enumWorkers++
			if len(s.Exhaustive) > 0 {
				enumComplete++
			}
			for _, e := range s.Exhaustive {
				exhaustive[e] = true
			}
		}
		if first == 0 {
			first = s.FirstSeed
		}
		if s.LastSeed != 0 {
			last = s.LastSeed
		}
		if len(samples) < 4 {
			for _, sm := range s.Samples {
				if len(samples) < 4 {
					samples = append(samples, sm)
				}
			}
		}
		for _, v := range s.Violations {
			v.race = s.Race
			if o, ok := vios[v.Sig]; ok {
				o.Count += v.Count
				if v.Calls < o.Calls && v.ReplayFile != "" {
					o.ReplayFile, o.Calls, o.Detail, o.race = v.ReplayFile, v.Calls, v.Detail, v.race
				}
			} else {
				vios[v.Sig] = v
			}
		}
	}
	// distinct non-trivial cases: merge the workers' hash files
	distinct := countDistinct(sums)

	sigs := make([]string, 0, len(vios))
	for s := range vios {
		sigs = append(sigs, s)
	}
	sort.Strings(sigs)
	nViol := 0
	nVerified := 0
	var knownHit []string
	var lines []string
	for _, sg := range sigs {
		v := vios[sg]
		isKnown := false
		for _, k := range kf {
			if k.kind == "known" && k.prop == *prop && k.sig == sg {
				isKnown = true
				knownHit = append(knownHit, sg)
				lines = append(lines, fmt.Sprintf("KNOWN-FINDING: property=%s %s (signature %s, seen %d times)", *prop, k.text, sg, v.Count))
			}
		}
		if isKnown {
			continue
		}
		nViol++
		// keep the replay file and verify it twice in fresh processes
		dst := filepath.Join(resultDir, "replays", filepath.Base(v.ReplayFile))
		os.MkdirAll(filepath.Dir(dst), 0o755)
		stable := "unverified"
		if b, err := os.ReadFile(v.ReplayFile); err == nil {
			w := filepath.Join(scratch, "worker")
			if v.race {
				w = filepath.Join(scratch, "worker-race")
			}
			ok := 0
			for i := 0; i < 2; i++ {
				cmd := exec.Command(w, "-mode", "replay", "-file", v.ReplayFile, "-bindir", binDir)
				cmd.Env = append(os.Environ(), "GORACE=log_path="+filepath.Join(outDir, "replayrace")+" halt_on_error=0 exitcode=0")
				out, _ := cmd.Output()
				if strings.Contains(string(out), "\nREPRODUCED property=") && strings.Contains(string(out), "same_trace=true") {
					ok++
				}
			}
			if ok > 0 {
				nVerified++
			}
			stable = fmt.Sprintf("%d/2 fresh-process replays reproduced the violation with the same trace hash", ok)
			var m map[string]any
			if json.Unmarshal(b, &m) == nil {
				m["replay_verification"] = stable
				m["replay_unstable"] = ok < 2
				if nb, err := json.MarshalIndent(m, "", " "); err == nil {
					b = nb
				}
			}
			os.WriteFile(dst, b, 0o644)
		}
		lines = append(lines, fmt.Sprintf("violation: signature=%s class=%s count=%d calls_in_replay=%d (%s)\n  %s", sg, v.Class, v.Count, v.Calls, stable, strings.ReplaceAll(tail(v.Detail, 1500), "\n", "\n  ")))
		lines = append(lines, fmt.Sprintf("VIOLATION property=%s replay=%s", *prop, dst))
	}

	// evidence
	totalWall := time.Since(start).Seconds()
	rph := 0.0
	if wall > 0 {
		rph = float64(agg.Runs) / wall * 3600
	}
	exh := []string{}
	for e := range exhaustive {
		exh = append(exh, e)
	}
	sort.Strings(exh)
	enumAll := enumWorkers > 0 && enumComplete == enumWorkers
	if !enumAll {
		exh = nil
	}
	if len(samples) == 0 {
		samples = append(samples, json.RawMessage(`"no non-trivial sample was recorded in this run"`))
	}
	warn := []string{}
	if *tier == "thorough" {
		for _, pr := range expectedProbes(*prop) {
			if agg.Probes[pr] == 0 && agg.Faults[pr] == 0 {
				warn = append(warn, "probe stuck at zero: "+pr)
			}
		}
	}
	cov := map[string]any{
		"evaluations":                  agg.Runs,
		"distinct_nontrivial":          distinct,
		"rule":                         pl.rule,
		"samples":                      samples,
		"exhaustive":                   false,
		"exhaustive_subspaces":         exh,
		"enumerations":                 agg.Enum,
		"scenarios":                    agg.Scenarios,
		"api_calls_checked":            agg.Calls,
		"oracle_executions":            agg.Pristine,
		"runs_per_engine":              perEngine,
		"runs_per_target":              agg.PerTarget,
		"calls_per_function":           agg.PerFn,
		"runs_per_hour":                int64(rph),
		"seeds":                        map[string]any{"verif_seed": seed, "derivation": "run_seed = mix(mix(VERIF_SEED, fnv64(property)), global run index); per-call decision streams = mix(run_seed, call id)", "first_run_seed": first, "last_run_seed": last},
		"sim_steps":                    agg.Steps,
		"sim_time_note":                "simulated time is the logical step counter (one step per function entry / loop iteration of instrumented code); the code has no clock",
		"sim_reads":                    agg.SimReads,
		"sim_writes":                   agg.SimWrites,
		"faults_fired":                 agg.Faults,
		"probes":                       agg.Probes,
		"probe_warnings":               warn,
		"distinct_outcome_classes":     len(agg.OutClasses),
		"outcome_classes":              agg.OutClasses,
		"determinism_crosschecks":      map[string]any{"runs_executed_twice_in_different_processes": crossChecked, "trace_hash_mismatches": len(crossBad)},
		"real_components":              pl.real,
		"stubbed_components":           pl.stub,
		"known_findings_hit":           knownHit,
		"instrumented_tree_sha256":     tree,
		"total_wall_s_including_build": totalWall,
	}
	if *prop == "C10" || *prop == "C04" {
		cov["distinct_interleavings_measure"] = "distinct (scenario hash, full event-trace hash incl. every context switch with its site) among executed schedules with at least one switch inside an in-flight library call"
		if *prop == "C10" {
			cov["distinct_interleavings"] = distinct
		}
		cov["context_switches"] = agg.Probes["switches"]
		cov["context_switches_inside_a_call_in_flight"] = agg.Probes["switches_in_flight"]
	}
	ev := map[string]any{"property_id": *prop, "tier": *tier, "seed": int64(seed), "level": pl.level, "coverage": cov, "assumptions": pl.assume, "wall_s": totalWall, "violations": nViol}
	eb, _ := json.MarshalIndent(ev, "", " ")
	os.MkdirAll(filepath.Join(resultDir, "evidence"), 0o755)
	if err := os.WriteFile(filepath.Join(resultDir, "evidence", *prop+".json"), eb, 0o644); err != nil {
		die(2, "evidence: %v", err)
	}

	fmt.Printf("runs=%d scenarios=%d api_calls=%d distinct_nontrivial=%d sim_steps=%d runs/hour=%d wall=%.1fs\n", agg.Runs, agg.Scenarios, agg.Calls, distinct, agg.Steps, int64(rph), totalWall)
	fmt.Printf("determinism cross-checks: %d runs executed twice, %d mismatches\n", crossChecked, len(crossBad))
	for _, w := range warn {
		fmt.Println("WARNING:", w)
	}
	if len(crossBad) > 0 {
		die(2, "harness nondeterminism (not a violation):\n  %s", strings.Join(crossBad, "\n  "))
	}
	if len(machinery) > 0 {
		die(2, "machinery trouble (not a violation):\n%s", tail(strings.Join(machinery, "\n---\n"), 6000))
	}
	for _, l := range lines {
		fmt.Println(l)
	}
	if phaseTrouble != "" {
		if nVerified == 0 {
			die(2, "%s", phaseTrouble)
		}
		fmt.Printf("note: some workers did not finish (%s); the violations above were found before that and reproduce in fresh processes\n", strings.TrimSpace(tail(phaseTrouble, 600)))
	}
	if nViol > 0 {
		cleanup()
		os.Exit(1)
	}
	fmt.Printf("OK property=%s held on everything explored\n", *prop)
}

func expectedProbes(prop string) []string {
	switch prop {
	case "C09":
		return []string{"pool_reuse", "pool_reuse_after_failed_call", "pool_reuse_cross_kind", "pool_evicted", "map_order_nontrivial", "patch_reused", "scribbled", "calls_failed"}
	case "C10":
		return []string{"switches_in_flight", "pool_reuse_cross_task", "strategy_pct", "strategy_random", "wg_wait_blocked"}
	case "C04":
		return []string{"pool_reuse", "calls_failed"}
	}
	return nil
}

func tail(s string, n int) string {
	if len(s) <= n {
		return s
	}
	return s[:n] + "…"
}

func countDistinct(sums []*summary) int64 {
	var all []uint64
	for _, s := range sums {
		if s.HashFile == "" {
			continue
		}
		b, err := os.ReadFile(s.HashFile)
		if err != nil {
			continue
		}
		for i := 0; i+8 <= len(b); i += 8 {
			all = append(all, binary.LittleEndian.Uint64(b[i:]))
		}
	}
	sort.Slice(all, func(i, j int) bool { return all[i] < all[j] })
	n := int64(0)
	for i := range all {
		if i == 0 || all[i] != all[i-1] {
			n++
		}
	}
	return n
}
