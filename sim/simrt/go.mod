module verif.local/simrt

go 1.18
