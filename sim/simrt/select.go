package simrt

import (
	"reflect"
	"unsafe"
)

// select statements of library code (simgen R7).  `select { case v := <-a: ...; case b <- x: ...;
// default: ... }` becomes
//
//	switch zzsel := simrt.Select(hasDefault, simrt.SelRecv(a), simrt.SelSendTo(b).V(x)); zzsel.I {
//	case 0: v := simrt.SelGet(a, zzsel); ...
//	case 1: ...
//	default: ...
//	}
//
// Select decides and performs the chosen communication in one step of the simulated world (no
// other task runs in between), as the real statement does.  Which of several ready cases is taken
// is a recorded decision of the run.  Two selects meeting on an unbuffered channel hand the value
// over directly (the parked one is completed by the one that arrives), so neither commits to a
// communication that the other does not take part in.

// SelCase is one communication clause.
type SelCase struct {
	key   unsafe.Pointer
	capN  int
	isNil bool
	send  bool
	v     any
	rch   reflect.Value // the real channel (used outside a world only)
}

// Selected is the outcome: the index of the clause taken (-1: default) and, for a receive, the
// value and whether it came from a send (false: channel closed).
type Selected struct {
	I  int
	v  any
	ok bool
}

// SelRecv describes `case ... <-c`.
func SelRecv[C RecvChan[T], T any](c C) SelCase {
	return SelCase{key: chanKey(c), capN: cap(c), isNil: c == nil, rch: reflect.ValueOf(c)}
}

// SelSender carries the channel of a send clause until its value is known (two steps, so that
// the value only has to be assignable to the element type, as in the statement).
type SelSender[T any] struct{ c SelCase }

// SelSendTo describes the channel of `case c <- v`.
func SelSendTo[C SendChan[T], T any](c C) SelSender[T] {
	return SelSender[T]{SelCase{key: chanKey(c), capN: cap(c), isNil: c == nil, send: true, rch: reflect.ValueOf(c)}}
}

// V completes a send clause with its value.
func (s SelSender[T]) V(v T) SelCase {
	s.c.v = v
	return s.c
}

// SelGet yields what a receive clause received (`v := <-c`); the channel only fixes the type.
func SelGet[C RecvChan[T], T any](c C, r Selected) T {
	v, _ := SelGet2[C, T](c, r)
	return v
}

// SelGet2 yields value and ok of a receive clause (`v, ok := <-c`).
func SelGet2[C RecvChan[T], T any](c C, r Selected) (T, bool) {
	var zero T
	if !r.ok || r.v == nil {
		return zero, r.ok
	}
	return r.v.(T), true
}

// Sender is the two-step form of a plain send statement (`c <- v` -> simrt.SendTo(c).V(v)): the
// value only has to be assignable to the element type.
type Sender[C SendChan[T], T any] struct{ c C }

// SendTo names the channel of a send statement.
func SendTo[C SendChan[T], T any](c C) Sender[C, T] { return Sender[C, T]{c} }

// V performs the send.
func (s Sender[C, T]) V(v T) { Send[C, T](s.c, v) }

type selWaiter struct {
	task  *Task
	cases []SelCase
	done  bool
	res   Selected
}

// Select implements a select statement.
func Select(hasDefault bool, cases ...SelCase) Selected {
	w := W
	if w == nil {
		return realSelect(hasDefault, cases)
	}
	Yield(0, ClassSync)
	selCount(w)
	if r, ok := selTry(w, cases); ok {
		selAfter(w, cases, r, false)
		return r
	}
	if hasDefault {
		return Selected{I: -1}
	}
	sw := selRegister(w, cases)
	for {
		w.chanWait("select")
		if done, r := selDone(sw); done {
			selAfter(w, cases, r, true)
			return r
		}
		if r, ok := selTry(w, cases); ok {
			selUnregister(w, sw)
			selAfter(w, cases, r, false)
			return r
		}
	}
}

// selAfter adds the happens-before edges of the communication that was performed and, for a send
// to a parked plain receiver on an unbuffered channel, waits until it has been taken.
func selAfter(w *World, cases []SelCase, r Selected, wasCompleted bool) {
	if r.I < 0 {
		return
	}
	c := cases[r.I]
	st := w.chanFor(c.key, c.capN)
	if c.send {
		if !wasCompleted {
			raceReleaseMerge(unsafe.Pointer(&st.sema))
			if t := selPendingTicket(st); t != 0 {
				for !sendDone(w, st, t) {
					w.chanWait("select send")
				}
			}
		}
		if st.capN == 0 {
			raceAcquire(unsafe.Pointer(&st.rsema))
		}
		return
	}
	raceAcquire(unsafe.Pointer(&st.sema))
	if r.ok && st.capN == 0 {
		raceReleaseMerge(unsafe.Pointer(&st.rsema))
	}
}

//go:norace
func selCount(w *World) { w.Stats.Selects++ }

//go:norace
func selPendingTicket(st *chanState) uint64 {
	t := st.selTicket
	st.selTicket = 0
	return t
}

//go:norace
func selDone(sw *selWaiter) (bool, Selected) { return sw.done, sw.res }

// selRegister parks the description of a waiting select where others can find it.  The edges a
// later direct hand-over needs from this side are published now (a little more synchronisation
// than the real statement gives: a race can be hidden by it, never invented).
func selRegister(w *World, cases []SelCase) *selWaiter {
	for _, c := range cases {
		if c.isNil {
			continue
		}
		st := w.chanFor(c.key, c.capN)
		if c.send {
			raceReleaseMerge(unsafe.Pointer(&st.sema))
		} else if st.capN == 0 {
			raceReleaseMerge(unsafe.Pointer(&st.rsema))
		}
	}
	return selAdd(w, cases)
}

//go:norace
func selAdd(w *World, cases []SelCase) *selWaiter {
	sw := &selWaiter{task: w.cur, cases: cases}
	w.selWaiters = append(w.selWaiters, sw)
	// plain senders and receivers parked on these channels look again
	w.chanWake()
	return sw
}

//go:norace
func selUnregister(w *World, sw *selWaiter) {
	for i, o := range w.selWaiters {
		if o == sw {
			// (no copy(): the runtime reports its writes to the race detector even from here)
			for k := i + 1; k < len(w.selWaiters); k++ {
				w.selWaiters[k-1] = w.selWaiters[k]
			}
			w.selWaiters[len(w.selWaiters)-1] = nil
			w.selWaiters = w.selWaiters[:len(w.selWaiters)-1]
			return
		}
	}
}

// selPartner finds a parked select (of another task) with a clause of the opposite direction on
// the channel.
//
//go:norace
func selPartner(w *World, key unsafe.Pointer, wantSend bool) (*selWaiter, int) {
	for _, sw := range w.selWaiters {
		if sw.done || sw.task == w.cur {
			continue
		}
		for i, c := range sw.cases {
			if !c.isNil && c.key == key && c.send == wantSend {
				return sw, i
			}
		}
	}
	return nil, 0
}

// selTry looks for ready clauses, picks one and performs it.
//
//go:norace
func selTry(w *World, cases []SelCase) (Selected, bool) {
	var ready [16]int
	n := 0
	for i, c := range cases {
		if c.isNil || n == len(ready) {
			continue
		}
		st := w.chanFor(c.key, c.capN)
		ok := false
		if c.send {
			switch {
			case st.closed:
				ok = true
			case st.capN > 0:
				ok = len(st.q) < st.capN
			default:
				if st.rwait > len(st.q) {
					ok = true
				} else if sw, _ := selPartner(w, c.key, false); sw != nil {
					ok = true
				}
			}
		} else {
			if len(st.q) > 0 || st.closed {
				ok = true
			} else if sw, _ := selPartner(w, c.key, true); sw != nil {
				ok = true
			}
		}
		if ok {
			ready[n] = i
			n++
		}
	}
	if n == 0 {
		return Selected{}, false
	}
	i := ready[0]
	if n > 1 {
		w.Stats.SelectMultiReady++
		i = ready[w.choose(4, n)]
	}
	c := cases[i]
	st := w.chanFor(c.key, c.capN)
	if c.send {
		if st.closed {
			panic("send on closed channel")
		}
		if st.capN == 0 && st.rwait <= len(st.q) {
			// hand over to a parked select
			sw, k := selPartner(w, c.key, false)
			sw.done, sw.res = true, Selected{I: k, v: c.v, ok: true}
			w.Stats.SelectHandover++
			selUnregister(w, sw)
			w.chanWake()
			return Selected{I: i}, true
		}
		w.chanTicket++
		st.q = append(st.q, chanItem{v: c.v, ticket: w.chanTicket})
		if st.capN == 0 {
			st.selTicket = w.chanTicket
		}
		w.chanWake()
		return Selected{I: i}, true
	}
	if len(st.q) > 0 || st.closed {
		v, ok, _ := recvTry(w, st)
		return Selected{I: i, v: v, ok: ok}, true
	}
	sw, k := selPartner(w, c.key, true)
	sw.done, sw.res = true, Selected{I: k}
	w.Stats.SelectHandover++
	selUnregister(w, sw)
	w.chanWake()
	return Selected{I: i, v: sw.cases[k].v, ok: true}, true
}

// realSelect is the statement itself, outside a world.
func realSelect(hasDefault bool, cases []SelCase) Selected {
	rc := make([]reflect.SelectCase, 0, len(cases)+1)
	for _, c := range cases {
		if c.send {
			v := reflect.ValueOf(c.v)
			if !v.IsValid() {
				v = reflect.Zero(c.rch.Type().Elem())
			}
			rc = append(rc, reflect.SelectCase{Dir: reflect.SelectSend, Chan: c.rch, Send: v})
		} else {
			rc = append(rc, reflect.SelectCase{Dir: reflect.SelectRecv, Chan: c.rch})
		}
	}
	if hasDefault {
		rc = append(rc, reflect.SelectCase{Dir: reflect.SelectDefault})
	}
	i, v, ok := reflect.Select(rc)
	if hasDefault && i == len(cases) {
		return Selected{I: -1}
	}
	if cases[i].send || !ok {
		return Selected{I: i, ok: ok}
	}
	return Selected{I: i, v: v.Interface(), ok: true}
}
