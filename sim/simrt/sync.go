package simrt

import "unsafe"

// The types below replace their sync namesakes in instrumented code.  Blocking
// is simulated: a task that would block is parked and another one is run; if
// none can run the world records a deadlock.  In race builds each operation
// produces exactly the happens-before edge the real primitive documents.

// WaitGroup replaces sync.WaitGroup.
type WaitGroup struct {
	n    int
	sema byte
}

//go:norace
func (wg *WaitGroup) add(d int) (zero bool) {
	wg.n += d
	if wg.n < 0 {
		panic("sync: negative WaitGroup counter")
	}
	if wg.n == 0 {
		if w := W; w != nil {
			w.unblock(unsafe.Pointer(wg))
		}
		return true
	}
	return false
}

// Add implements sync.WaitGroup.Add.
func (wg *WaitGroup) Add(delta int) {
	Yield(0, ClassSync)
	if delta < 0 {
		raceReleaseMerge(unsafe.Pointer(&wg.sema))
	}
	wg.add(delta)
}

// Done implements sync.WaitGroup.Done.
func (wg *WaitGroup) Done() { wg.Add(-1) }

//go:norace
func (wg *WaitGroup) mustWait() bool {
	if wg.n == 0 {
		return false
	}
	w := W
	if w == nil {
		panic("simrt: WaitGroup.Wait would block outside a simulated world")
	}
	w.Stats.WGWaitBlocked++
	w.block(unsafe.Pointer(wg), "WaitGroup.Wait")
	return true
}

// Wait implements sync.WaitGroup.Wait.
func (wg *WaitGroup) Wait() {
	Yield(0, ClassSync)
	for wg.mustWait() {
	}
	raceAcquire(unsafe.Pointer(&wg.sema))
}

// Mutex replaces sync.Mutex.
type Mutex struct {
	locked bool
	sema   byte
}

//go:norace
func (m *Mutex) tryAcquire() bool {
	if m.locked {
		return false
	}
	m.locked = true
	return true
}

//go:norace
func (m *Mutex) waitFor() {
	w := W
	if w == nil {
		panic("simrt: Mutex.Lock would block outside a simulated world")
	}
	w.Stats.MutexBlocked++
	w.block(unsafe.Pointer(m), "Mutex.Lock")
}

// Lock implements sync.Mutex.Lock.
func (m *Mutex) Lock() {
	Yield(0, ClassSync)
	for !m.tryAcquire() {
		m.waitFor()
	}
	raceAcquire(unsafe.Pointer(&m.sema))
}

// TryLock implements sync.Mutex.TryLock.
func (m *Mutex) TryLock() bool {
	Yield(0, ClassSync)
	if !m.tryAcquire() {
		return false
	}
	raceAcquire(unsafe.Pointer(&m.sema))
	return true
}

//go:norace
func (m *Mutex) release() {
	if !m.locked {
		panic("sync: unlock of unlocked mutex")
	}
	m.locked = false
	if w := W; w != nil {
		w.unblock(unsafe.Pointer(m))
	}
}

// Unlock implements sync.Mutex.Unlock.
func (m *Mutex) Unlock() {
	raceReleaseMerge(unsafe.Pointer(&m.sema))
	m.release()
	Yield(0, ClassSync)
}

// RWMutex replaces sync.RWMutex.
type RWMutex struct {
	writer  bool
	readers int
	rsema   byte
	wsema   byte
}

//go:norace
func (m *RWMutex) tryW() bool {
	if m.writer || m.readers > 0 {
		return false
	}
	m.writer = true
	return true
}

//go:norace
func (m *RWMutex) tryR() bool {
	if m.writer {
		return false
	}
	m.readers++
	return true
}

//go:norace
func (m *RWMutex) waitFor(what string) {
	w := W
	if w == nil {
		panic("simrt: RWMutex would block outside a simulated world")
	}
	w.Stats.MutexBlocked++
	w.block(unsafe.Pointer(m), what)
}

// Lock implements sync.RWMutex.Lock.
func (m *RWMutex) Lock() {
	Yield(0, ClassSync)
	for !m.tryW() {
		m.waitFor("RWMutex.Lock")
	}
	raceAcquire(unsafe.Pointer(&m.rsema))
	raceAcquire(unsafe.Pointer(&m.wsema))
}

//go:norace
func (m *RWMutex) relW() {
	if !m.writer {
		panic("sync: Unlock of unlocked RWMutex")
	}
	m.writer = false
	if w := W; w != nil {
		w.unblock(unsafe.Pointer(m))
	}
}

// Unlock implements sync.RWMutex.Unlock.
func (m *RWMutex) Unlock() {
	raceReleaseMerge(unsafe.Pointer(&m.wsema))
	m.relW()
	Yield(0, ClassSync)
}

// RLock implements sync.RWMutex.RLock.
func (m *RWMutex) RLock() {
	Yield(0, ClassSync)
	for !m.tryR() {
		m.waitFor("RWMutex.RLock")
	}
	raceAcquire(unsafe.Pointer(&m.wsema))
}

//go:norace
func (m *RWMutex) relR() {
	if m.readers <= 0 {
		panic("sync: RUnlock of unlocked RWMutex")
	}
	m.readers--
	if m.readers == 0 {
		if w := W; w != nil {
			w.unblock(unsafe.Pointer(m))
		}
	}
}

// RUnlock implements sync.RWMutex.RUnlock.
func (m *RWMutex) RUnlock() {
	raceReleaseMerge(unsafe.Pointer(&m.rsema))
	m.relR()
	Yield(0, ClassSync)
}

// Once replaces sync.Once.
type Once struct {
	done    bool
	running bool
	sema    byte
}

//go:norace
func (o *Once) enter() (run bool, wait bool) {
	if o.done {
		return false, false
	}
	if o.running {
		return false, true
	}
	o.running = true
	return true, false
}

//go:norace
func (o *Once) waitFor() {
	w := W
	if w == nil {
		panic("simrt: Once.Do would block outside a simulated world")
	}
	w.block(unsafe.Pointer(o), "Once.Do")
}

//go:norace
func (o *Once) finish() {
	o.done = true
	o.running = false
	if w := W; w != nil {
		w.unblock(unsafe.Pointer(o))
	}
}

// Do implements sync.Once.Do.
func (o *Once) Do(f func()) {
	Yield(0, ClassSync)
	for {
		run, wait := o.enter()
		if run {
			defer func() {
				raceReleaseMerge(unsafe.Pointer(&o.sema))
				o.finish()
			}()
			f()
			return
		}
		if !wait {
			raceAcquire(unsafe.Pointer(&o.sema))
			return
		}
		o.waitFor()
	}
}

// Locker is sync.Locker (Cond.L holds a rewritten Mutex or RWMutex, or any caller type).
type Locker interface {
	Lock()
	Unlock()
}

// Cond replaces sync.Cond.  Wait returns only after a Signal or Broadcast that found it waiting
// (no spurious wake-ups, as documented); Signal wakes the longest waiter.
type Cond struct {
	L       Locker
	next    uint64
	waiting []uint64
	sema    byte
}

// NewCond implements sync.NewCond.
func NewCond(l Locker) *Cond { return &Cond{L: l} }

//go:norace
func (c *Cond) enqueue() uint64 {
	c.next++
	if w := W; w != nil {
		w.Stats.CondWaits++
	}
	c.waiting = append(c.waiting, c.next)
	return c.next
}

//go:norace
func (c *Cond) stillWaiting(t uint64) bool {
	for _, x := range c.waiting {
		if x == t {
			w := W
			if w == nil {
				panic("simrt: Cond.Wait would block outside a simulated world")
			}
			w.block(unsafe.Pointer(c), "Cond.Wait")
			return true
		}
	}
	return false
}

//go:norace
func (c *Cond) release(all bool) {
	switch {
	case len(c.waiting) == 0:
		return
	case all:
		c.waiting = c.waiting[:0]
	default:
		for k := 1; k < len(c.waiting); k++ {
			c.waiting[k-1] = c.waiting[k]
		}
		c.waiting = c.waiting[:len(c.waiting)-1]
	}
	if w := W; w != nil {
		w.unblock(unsafe.Pointer(c))
	}
}

// Wait implements sync.Cond.Wait.
func (c *Cond) Wait() {
	Yield(0, ClassSync)
	t := c.enqueue()
	c.L.Unlock()
	for c.stillWaiting(t) {
	}
	raceAcquire(unsafe.Pointer(&c.sema))
	c.L.Lock()
}

// Signal implements sync.Cond.Signal.
func (c *Cond) Signal() {
	Yield(0, ClassSync)
	raceReleaseMerge(unsafe.Pointer(&c.sema))
	c.release(false)
}

// Broadcast implements sync.Cond.Broadcast.
func (c *Cond) Broadcast() {
	Yield(0, ClassSync)
	raceReleaseMerge(unsafe.Pointer(&c.sema))
	c.release(true)
}
