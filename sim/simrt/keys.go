package simrt

import (
	"fmt"
	"reflect"
	"sort"
)

// Keys returns the keys of m in the order the installed world dictates.  simgen
// rewrites every `range` over a map into a range over Keys(m) followed by a
// lookup, which preserves Go's semantics for deletion and insertion during
// iteration while taking the order away from the runtime.  Any permutation is
// legal Go behaviour.
func Keys[K comparable, V any](m map[K]V) []K {
	keys := make([]K, 0, len(m))
	for k := range m {
		keys = append(keys, k)
	}
	if len(keys) < 2 {
		return keys
	}
	sortKeys(keys)
	order(len(keys), func(i, j int) { keys[i], keys[j] = keys[j], keys[i] })
	return keys
}

func sortKeys[K comparable](keys []K) {
	switch ks := any(keys).(type) {
	case []string:
		sort.Strings(ks)
	case []int:
		sort.Ints(ks)
	default:
		sort.SliceStable(keys, func(i, j int) bool {
			return fmt.Sprintf("%v", keys[i]) < fmt.Sprintf("%v", keys[j])
		})
	}
}

// order applies the world's map-order policy to a sorted sequence of n keys.
func order(n int, swap func(i, j int)) {
	pol, rot := keysPolicy(n)
	switch pol {
	case MapSorted:
	case MapReversed:
		for i, j := 0, n-1; i < j; i, j = i+1, j-1 {
			swap(i, j)
		}
	case MapRotated:
		// rotate left by rot using three reversals
		rev := func(a, b int) {
			for a < b {
				swap(a, b)
				a++
				b--
			}
		}
		rev(0, rot-1)
		rev(rot, n-1)
		rev(0, n-1)
	case MapPermuted:
		for i := n - 1; i > 0; i-- {
			j := keysDraw(i + 1)
			if i != j {
				swap(i, j)
			}
		}
	}
}

//go:norace
func keysPolicy(n int) (pol int, rot int) {
	w := W
	if w == nil {
		return MapSorted, 0
	}
	w.Stats.KeysCalls++
	pol = w.Cfg.MapPolicy
	if pol != MapSorted {
		w.Stats.KeysNontrivial++
	}
	if pol == MapRotated {
		w.rotCtr++
		rot = int(1 + w.rotCtr%uint64(n-1))
	}
	w.ev(EvKeys, uint32(n), uint32(pol))
	return pol, rot
}

//go:norace
func keysDraw(n int) int {
	w := W
	if w == nil {
		return 0
	}
	return w.choose(3, n)
}

// MapIter replaces *reflect.MapIter for `v.MapRange()` in instrumented code:
// the iteration order comes from the world, not from the runtime.
type MapIter struct {
	m    reflect.Value
	keys []reflect.Value
	i    int
}

// MapKeys returns v.MapKeys() in the order the installed world dictates.
func MapKeys(v reflect.Value) []reflect.Value {
	keys := v.MapKeys()
	if len(keys) < 2 {
		return keys
	}
	sort.SliceStable(keys, func(i, j int) bool { return reflectLess(keys[i], keys[j]) })
	order(len(keys), func(i, j int) { keys[i], keys[j] = keys[j], keys[i] })
	return keys
}

func reflectLess(a, b reflect.Value) bool {
	switch a.Kind() {
	case reflect.String:
		return a.String() < b.String()
	case reflect.Int, reflect.Int8, reflect.Int16, reflect.Int32, reflect.Int64:
		return a.Int() < b.Int()
	case reflect.Uint, reflect.Uint8, reflect.Uint16, reflect.Uint32, reflect.Uint64, reflect.Uintptr:
		return a.Uint() < b.Uint()
	}
	return fmt.Sprint(a) < fmt.Sprint(b)
}

// MapRange replaces reflect.Value.MapRange.
func MapRange(v reflect.Value) *MapIter {
	return &MapIter{m: v, keys: MapKeys(v), i: -1}
}

// Next advances the iterator.
func (it *MapIter) Next() bool {
	it.i++
	return it.i < len(it.keys)
}

// Key returns the current key.
func (it *MapIter) Key() reflect.Value { return it.keys[it.i] }

// Value returns the current value.
func (it *MapIter) Value() reflect.Value { return it.m.MapIndex(it.keys[it.i]) }
