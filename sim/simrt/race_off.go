//go:build !race

package simrt

import "unsafe"

// RaceEnabled reports whether this binary was built with -race.
const RaceEnabled = false

func raceDisable()                      {}
func raceEnable()                       {}
func raceAcquire(p unsafe.Pointer)      {}
func raceReleaseMerge(p unsafe.Pointer) {}

// RaceErrors is the number of race reports printed so far by this process.
func RaceErrors() int { return 0 }
