package simrt

import (
	"fmt"
	"runtime"
	"time"
	"unsafe"
)

const (
	taskRunnable = iota
	taskBlocked
	taskDone
)

// Task is one simulated caller goroutine.  Tasks are real goroutines; exactly
// one of them (or the main goroutine) holds the baton at any time.
type Task struct {
	id    int
	state int
	wake  chan struct{}
	done  chan struct{}
	prio  int
	// PCT: where the goroutines this task starts during its current call go relative to it
	spawnBias int8
	biasSet   bool
	biasCall  uint64

	src        *Source
	inCall     bool
	callSerial uint64
	callKind   uint32
	callYields int32
	callSteps  int64
	budget     int64
	nextHang   int64 // step count at which an over-budget call is unwound again
	deadlocked bool  // (main only) woken because nothing else can run
	exitable   bool  // the call runs on its own goroutine and may be ended with Goexit
	hung       bool  // ... and has been
	hangSteps  int64
	held       int

	blockedOn unsafe.Pointer
	panicked  any
	child     bool // started by the library itself (a rewritten go statement)
}

// ID returns the task index (spawn order).
func (t *Task) ID() int { return t.id }

// DeadlockSentinel unwinds the main task when it would block forever.
type DeadlockSentinel struct{ What string }

func (d DeadlockSentinel) Error() string { return "simrt: deadlock: " + d.What }

// Run result codes.
const (
	RunCompleted = iota
	RunDeadlock
)

// SchedState carries the forced picks of a run so they can be replayed.
//
//go:norace
func (w *World) Picks() []int8 {
	if w.pickReplay {
		return append([]int8(nil), w.effPicks...)
	}
	return append([]int8(nil), w.picks...)
}

// SetReplayPicks makes forced picks (task start / exit / block) follow a recording.
//
//go:norace
func (w *World) SetReplayPicks(p []int8) { w.picks = append([]int8(nil), p...); w.pickReplay = true }

var schedRngState uint64

//go:norace
func (w *World) srand() uint64 {
	schedRngState += 0x9e3779b97f4a7c15
	z := schedRngState
	z = (z ^ (z >> 30)) * 0xbf58476d1ce4e5b9
	z = (z ^ (z >> 27)) * 0x94d049bb133111eb
	return z ^ (z >> 31)
}

// Spawn creates a task that will run fn once scheduled by Run.  It must be called
// from the main goroutine before Run; everything written before the go statement
// is ordered before the task (the one happens-before edge callers really have).
func (w *World) Spawn(fn func(t *Task)) *Task {
	t := &Task{wake: make(chan struct{}, 1), done: make(chan struct{})}
	w.register(t)
	go func() {
		raceDisable()
		<-t.wake
		raceEnable()
		func() {
			defer func() {
				if r := recover(); r != nil {
					t.setPanicked(r)
				}
			}()
			fn(t)
		}()
		close(t.done) // real, race-visible join edge to whoever receives from done
		w.taskExit(t)
	}()
	return t
}

//go:norace
func (t *Task) setPanicked(r any) { t.panicked = r }

//go:norace
func (w *World) register(t *Task) {
	t.id = len(w.tasks)
	t.state = taskRunnable
	t.budget = w.Cfg.StepBudget
	w.tasks = append(w.tasks, t)
}

// Run schedules the spawned tasks until all are done or none can run.
func (w *World) Run(schedSeed uint64) int {
	first := w.startRun(schedSeed)
	if first == nil {
		return RunCompleted
	}
	raceDisable()
	first.wake <- struct{}{}
	code := <-w.mainWake
	raceEnable()
	w.endRun()
	// join every finished task through a real synchronisation so that the
	// harness may read what the tasks wrote
	for _, t := range w.tasksSnapshot() {
		if t.isDone() {
			<-t.done
		}
	}
	for _, t := range w.tasksSnapshot() {
		if p := t.getPanicked(); p != nil {
			w.violate("task-panic", fmt.Sprint(p))
		}
	}
	return code
}

//go:norace
func (w *World) tasksSnapshot() []*Task { return append([]*Task(nil), w.tasks...) }

//go:norace
func (t *Task) isDone() bool { return t.state == taskDone }

//go:norace
func (t *Task) getPanicked() any { return t.panicked }

//go:norace
func (w *World) startRun(schedSeed uint64) *Task {
	if len(w.tasks) == 0 {
		return nil
	}
	schedRngState = schedSeed
	w.mainWake = make(chan int, 1)
	w.schedOn = w.Cfg.Sched != SchedNone
	w.inRun = true
	n := len(w.tasks)
	// PCT: random distinct initial priorities n..1 (higher runs first)
	if w.Cfg.Sched == SchedPCT {
		perm := make([]int, n)
		for i := range perm {
			perm[i] = i
		}
		for i := n - 1; i > 0; i-- {
			j := int(w.srand() % uint64(i+1))
			perm[i], perm[j] = perm[j], perm[i]
		}
		for i, t := range w.tasks {
			t.prio = (perm[i] + 1) * prioStep
		}
	}
	first := w.pick(nil)
	w.cur = first
	return first
}

//go:norace
func (w *World) endRun() {
	w.schedOn = false
	w.inRun = false
	w.cur = &w.main
}

// pick chooses the next task at a forced switch point (start, exit, block).
//
//go:norace
func (w *World) pick(exclude *Task) *Task {
	var cand [64]*Task
	n := 0
	for _, t := range w.tasks {
		if t.state == taskRunnable && t != exclude && n < len(cand) {
			cand[n] = t
			n++
		}
	}
	// the main goroutine takes part as a task only while it is parked for goroutines the
	// library started (single-task engines); otherwise it is the coordinator of Run
	if w.mainParked && w.main.state == taskRunnable && exclude != &w.main && n < len(cand) {
		cand[n] = &w.main
		n++
	}
	if n == 0 {
		return nil
	}
	var chosen *Task
	if w.pickReplay {
		if w.pickPos < len(w.picks) {
			want := int(w.picks[w.pickPos])
			for i := 0; i < n; i++ {
				if cand[i].id == want {
					chosen = cand[i]
				}
			}
		}
		w.pickPos++
		if chosen == nil {
			w.Stats.TapeClamped++
			chosen = cand[0]
		}
		w.effPicks = append(w.effPicks, int8(chosen.id))
	} else {
		switch w.Cfg.Sched {
		case SchedRandom:
			chosen = cand[int(w.srand()%uint64(n))]
		case SchedPCT:
			chosen = cand[0]
			for i := 1; i < n; i++ {
				if cand[i].prio > chosen.prio {
					chosen = cand[i]
				}
			}
		default:
			chosen = cand[0]
		}
		w.picks = append(w.picks, int8(chosen.id))
	}
	w.ev(EvPick, uint32(chosen.id), 0)
	return chosen
}

//go:norace
func (w *World) taskExit(t *Task) {
	t.state = taskDone
	if w.dead {
		return
	}
	w.ev(EvTaskExit, uint32(t.id), 0)
	next := w.pick(t)
	if next != nil {
		w.cur = next
		raceDisable()
		next.wake <- struct{}{}
		raceEnable()
		return
	}
	code := RunCompleted
	for _, o := range w.tasks {
		// a goroutine the library started that is still waiting when every caller has finished is
		// a worker waiting for more work (or a leak), not a deadlock: only a blocked caller is one
		if o.state == taskBlocked && !o.child {
			code = RunDeadlock
		}
	}
	if code == RunDeadlock || (w.mainParked && w.main.state == taskBlocked) {
		w.Stats.Deadlocks++
		w.violate("deadlock", "all remaining tasks are blocked")
	}
	if !w.inRun {
		// no coordinator: the main goroutine is parked as a task; let it see the deadlock
		if w.mainParked {
			w.main.state = taskRunnable
			w.main.deadlocked = true
			w.cur = &w.main
			raceDisable()
			w.main.wake <- struct{}{}
			raceEnable()
		}
		return
	}
	raceDisable()
	w.mainWake <- code
	raceEnable()
}

// Go starts fn as a goroutine of the simulated world: the rewritten form of a go statement in
// library code.  The child is a task like any caller task: it runs only when it holds the baton
// (at the parent's blocking points, at pre-emption points of concurrent worlds, or when the
// parent's call has returned).  The real go statement below is the one happens-before edge a
// real go statement gives; joins go through the simulated WaitGroup/Mutex edges.
func Go(fn func()) {
	w := W
	if w == nil {
		go fn()
		return
	}
	if w.dead {
		go fn()
		return
	}
	child := w.newChild()
	defer w.afterSpawn()
	go func() {
		raceDisable()
		<-child.wake
		raceEnable()
		if w.isDead() {
			close(child.done) // never started: the world ended first
			return
		}
		defer w.childExit(child)
		defer func() {
			if r := recover(); r != nil {
				child.setPanicked(r)
				w.violate("task-panic", fmt.Sprintf("a goroutine started by the library panicked: %v", r))
			}
		}()
		fn()
	}()
}

//go:norace
func (w *World) newChild() *Task {
	p := w.cur
	t := &Task{wake: make(chan struct{}, 1), done: make(chan struct{}), child: true}
	t.id = len(w.tasks)
	t.state = taskRunnable
	t.src, t.inCall, t.callSerial, t.callKind = p.src, p.inCall, p.callSerial, p.callKind
	t.budget = p.budget
	t.exitable = true
	t.prio = p.prio
	if w.inRun && w.Cfg.Sched == SchedPCT {
		// its own priority, just above or just below its parent's: started before the parent goes
		// on, or only when the parent waits
		// (one draw per call of the parent decides whether all goroutines it starts go above it, all
		// below, or each its own way: "every helper is done before the caller looks" and "no helper
		// has started when the caller waits" are both ordinary executions)
		if !p.biasSet || p.biasCall != p.callSerial {
			p.biasSet, p.biasCall, p.spawnBias = true, p.callSerial, int8(w.srand()%3)-1
		}
		d := int(w.srand()%uint64(prioStep/2-1)) + 1
		if p.spawnBias < 0 || (p.spawnBias == 0 && w.srand()&1 == 0) {
			d = -d
		}
		t.prio = p.prio + d
		if d > 0 {
			w.Stats.ChildAbove++
		}
	}
	w.tasks = append(w.tasks, t)
	w.Stats.ChildTasks++
	w.ev(EvUser, 0xfffd, uint32(t.id))
	return t
}

func (w *World) childExit(t *Task) {
	if t.wasHung() {
		w.violate("hang", "a goroutine started by the library exceeded its step budget")
	}
	close(t.done)
	w.taskExit(t)
}

//go:norace
func (t *Task) wasHung() bool { return t.hung }

// DrainChildren lets goroutines the library started run to completion once the call that started
// them has returned (single-task engines; in concurrent worlds they are scheduled like any task).
func (w *World) DrainChildren() {
	for w.parkMainFor() {
	}
}

//go:norace
func (w *World) runnableChild() *Task {
	if w.inRun || w.cur != &w.main {
		return nil
	}
	for _, t := range w.tasks {
		if t.child && t.state == taskRunnable {
			return t
		}
	}
	return nil
}

func (w *World) parkMainFor() bool {
	next := w.runnableChild()
	if next == nil {
		return false
	}
	w.handToChild(next, false)
	return true
}

//go:norace
func (w *World) handToChild(next *Task, blocked bool) {
	w.mainParked = true
	if !blocked {
		w.main.state = taskRunnable
	}
	w.ev(EvSwitch, uint32(next.id), 0)
	w.cur = next
	raceDisable()
	next.wake <- struct{}{}
	<-w.main.wake
	raceEnable()
	w.mainParked = false
}

// AfterAtomic is a pre-emption point right after an atomic operation that produced v (simgen R8).
func AfterAtomic[T any](site uint32, v T) T {
	Yield(site, ClassSync)
	return v
}

// prioStep separates the priorities of caller tasks (PCT), leaving room for the goroutines they start.
const prioStep = 1024

// higherPrio returns the runnable task of highest priority above t's, if any.
//
//go:norace
func (w *World) higherPrio(t *Task) *Task {
	var best *Task
	for _, o := range w.tasks {
		if o != t && o.state == taskRunnable && o.prio > t.prio && (best == nil || o.prio > best.prio) {
			best = o
		}
	}
	return best
}

// afterSpawn is a pre-emption point right after a go statement of library code (concurrent worlds).
func (w *World) afterSpawn() {
	if w.inRunNow() {
		Yield(0, ClassSync)
	}
}

//go:norace
func (w *World) inRunNow() bool { return w.inRun && !w.dead }

//go:norace
func (w *World) callerBlocked() bool {
	for _, o := range w.tasks {
		if o.state == taskBlocked && !o.child {
			return true
		}
	}
	return false
}

//go:norace
func (w *World) isDead() bool { return w.dead }

// reap ends a library goroutine that was woken only because its world is over (Shutdown): its
// deferred calls run (the shims do nothing in a dead world) and the goroutine is gone.
//
//go:norace
func (w *World) reap(t *Task) {
	if w.dead && t.child {
		runtime.Goexit()
	}
}

// Shutdown ends the goroutines the library started in this world and that are still parked -
// blocked for good, waiting for work that will never come (a long-lived worker), or never
// started.  Without it every run would leave them behind, with everything they reference.
func (w *World) Shutdown() {
	w.markDead()
	for _, t := range w.tasksSnapshot() {
		if !t.child {
			continue
		}
		if !t.isDone() {
			w.setCur(t)
			raceDisable()
			t.wake <- struct{}{}
			raceEnable()
		}
		// Receiving the close of done (race detector on) orders everything the goroutine did before
		// what the harness does next - putting the package's state back for the next run, for one.
		// That is an edge of the harness, about the harness's own writes; no library access is
		// ordered by it against another library access of the same run.
		select {
		case <-t.done:
		case <-time.After(2 * time.Second):
			// its deferred calls wait for something real: leave it behind
		}
	}
}

//go:norace
func (w *World) markDead() { w.dead = true }

//go:norace
func (w *World) setCur(t *Task) { w.cur = t }

// NumProcs replaces runtime.GOMAXPROCS(0) / runtime.NumCPU() in library code: a worker's real
// value differs from process to process and must not decide what the library does.
func NumProcs() int { return 4 }

// Yield is a pre-emption candidate, inserted by simgen and called by the shims.
//
//go:norace
func Yield(site uint32, class int) {
	w := W
	if w == nil || w.dead {
		return
	}
	t := w.cur
	src := t.src
	if src == nil || t.hung || (t.child && !w.inRun) {
		// only pre-empt inside API calls and not while a hung call is being unwound.  Goroutines the
		// library started are pre-empted like any task in concurrent worlds (their switches are
		// recorded in the source of the call that started them, marked with their task number); in
		// single-caller worlds there is no scheduler and they give the baton away by blocking or ending
		return
	}
	from := int8(0)
	if t.child {
		from = int8(t.id + 1)
	}
	w.Stats.Yields++
	cy := t.callYields
	t.callYields++
	if !w.schedOn {
		return
	}
	var next *Task
	switch w.Cfg.Sched {
	case SchedReplay:
		for src.swPos < len(src.Switches) && src.Switches[src.swPos].From == from && src.Switches[src.swPos].Yield < cy {
			src.swPos++
		}
		if src.swPos < len(src.Switches) && src.Switches[src.swPos].From == from && src.Switches[src.swPos].Yield == cy {
			want := int(src.Switches[src.swPos].To)
			src.swPos++
			for _, o := range w.tasks {
				if o.id == want && o.state == taskRunnable && o != t {
					next = o
				}
			}
			if next == nil {
				w.Stats.TapeClamped++
			}
		}
		if next != nil {
			src.EffSwitches = append(src.EffSwitches, Switch{Yield: cy, To: int8(next.id), From: from})
			w.switchTo(t, next, site)
		}
		return
	case SchedRandom:
		if class&w.Cfg.ClassMask == 0 {
			return
		}
		if int(w.srand()%1000) >= w.Cfg.SwitchPermille {
			return
		}
		next = w.pickOther(t, true)
	case SchedPCT:
		if w.pctNext >= len(w.Cfg.PCTPoints) || w.Stats.Yields < w.Cfg.PCTPoints[w.pctNext] {
			// not a change point: the running task keeps the baton unless a task of higher priority
			// has become runnable meanwhile (a goroutine the library just started with a higher
			// priority than its parent, or a task that was unblocked)
			next = w.higherPrio(t)
			break
		}
		w.pctNext++
		t.prio = -w.pctNext * prioStep // below every initial priority and every earlier demotion
		next = w.pickOther(t, false)
	}
	if next == nil || next == t {
		return
	}
	src.Switches = append(src.Switches, Switch{Yield: cy, To: int8(next.id), From: from})
	w.switchTo(t, next, site)
}

//go:norace
func (w *World) pickOther(t *Task, random bool) *Task {
	var cand [64]*Task
	n := 0
	for _, o := range w.tasks {
		if o.state == taskRunnable && o != t && n < len(cand) {
			cand[n] = o
			n++
		}
	}
	if n == 0 {
		return nil
	}
	if random {
		return cand[int(w.srand()%uint64(n))]
	}
	best := cand[0]
	for i := 1; i < n; i++ {
		if cand[i].prio > best.prio {
			best = cand[i]
		}
	}
	if best.prio < t.prio {
		return nil
	}
	return best
}

//go:norace
func (w *World) switchTo(t, next *Task, site uint32) {
	w.Stats.Switches++
	for _, o := range w.tasks {
		if o != t && o.inCall {
			w.Stats.SwitchInCall++
			break
		}
	}
	w.ev(EvSwitch, uint32(next.id), site)
	w.cur = next
	raceDisable()
	next.wake <- struct{}{}
	<-t.wake
	raceEnable()
	w.reap(t)
}

// block parks the running task until another task makes it runnable again.
//
//go:norace
func (w *World) block(on unsafe.Pointer, what string) {
	if w.dead {
		// a goroutine of a world that is over is running its deferred calls on the way out
		runtime.Goexit()
	}
	t := w.cur
	if !w.inRun && t == &w.main {
		// the main goroutine acts as the only caller task: it can wait for goroutines the library
		// started, and for nothing else
		if next := w.runnableChild(); next != nil {
			t.state = taskBlocked
			t.blockedOn = on
			w.ev(EvBlock, uint32(0xff), 0)
			w.handToChild(next, true)
			if !t.deadlocked {
				return
			}
			t.deadlocked = false
		}
		w.Stats.Deadlocks++
		w.violate("deadlock", what+" would block forever (single caller)")
		t.state = taskRunnable
		panic(DeadlockSentinel{what})
	}
	if !w.inRun {
		// a child task of a single-caller world blocks: run another child or give the baton back to main
		t.state = taskBlocked
		t.blockedOn = on
		w.ev(EvBlock, uint32(t.id), 0)
		next := w.pick(t)
		if next == nil {
			w.Stats.Deadlocks++
			w.violate("deadlock", what+": no runnable task")
			if w.mainParked {
				// the caller itself is waiting (for this goroutine, most likely): let it see the deadlock
				w.main.state = taskRunnable
				w.main.deadlocked = true
				w.cur = &w.main
			}
			raceDisable()
			if w.cur == &w.main {
				w.main.wake <- struct{}{}
			}
			<-t.wake // parked for good (until the world is shut down)
			raceEnable()
			w.reap(t)
			return
		}
		w.cur = next
		raceDisable()
		next.wake <- struct{}{}
		<-t.wake
		raceEnable()
		w.reap(t)
		return
	}
	t.state = taskBlocked
	t.blockedOn = on
	w.ev(EvBlock, uint32(t.id), 0)
	next := w.pick(t)
	if next == nil {
		code := RunDeadlock
		if t.child && !w.callerBlocked() {
			// every caller has finished and a goroutine the library started waits for more work:
			// the run is complete (the goroutine is ended when the world is shut down)
			code = RunCompleted
		} else {
			w.Stats.Deadlocks++
			w.violate("deadlock", what+": no runnable task")
		}
		raceDisable()
		w.mainWake <- code
		<-t.wake // parked for good (caller tasks are leaked, library goroutines reaped at shutdown; the run is over)
		raceEnable()
		w.reap(t)
		return
	}
	w.cur = next
	raceDisable()
	next.wake <- struct{}{}
	<-t.wake
	raceEnable()
	w.reap(t)
}

// unblock makes every task blocked on the given object runnable.
//
//go:norace
func (w *World) unblock(on unsafe.Pointer) {
	for _, o := range w.tasks {
		if o.state == taskBlocked && o.blockedOn == on {
			o.state = taskRunnable
			o.blockedOn = nil
			w.ev(EvUnblock, uint32(o.id), 0)
		}
	}
	if w.main.state == taskBlocked && w.main.blockedOn == on {
		w.main.state = taskRunnable
		w.main.blockedOn = nil
		w.ev(EvUnblock, 0xff, 0)
	}
}
