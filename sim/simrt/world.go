// Package simrt is the simulator runtime that instrumented copies of the
// json-patch packages are linked against.  It owns every source of
// nondeterminism the properties depend on: sync.Pool behaviour, map iteration
// order, which caller goroutine runs, and the logical clock (step counter).
//
// One World is installed per simulated run.  All bookkeeping in this package
// is invisible to the race detector on purpose (//go:norace, no maps, no
// atomics, hand-offs inside runtime.RaceDisable) so that the serialised
// execution adds no happens-before edges of its own between caller tasks.
package simrt

import (
	"fmt"
	"runtime"
)

// maxFrames bounds the depth of the running call's stack.  Legitimate recursion is bounded by
// the scanner's nesting limit (10^4 levels, a handful of frames each); beyond this the recursion
// has run away.  The depth is a function of the execution alone (unlike process-wide stack
// memory, which depends on what ran before), so the step at which the guard fires replays.
const maxFrames = 400_000

var pcsBuf [maxFrames + 1]uintptr

func tooDeep() bool {
	return runtime.Callers(0, pcsBuf[:]) > maxFrames
}

// Pool policies.
const (
	PoolFresh       = iota // every Get calls New (what a GC between any two calls does)
	PoolLIFO               // most recently Put item (one P between GCs)
	PoolFIFO               // oldest item
	PoolArbitrary          // any free item or New, drawn from the decision source
	PoolAdversarial        // prefer an item last used by a failed call / other kind of call / other task
	NumPoolPolicies
)

// Map-order policies.
const (
	MapSorted = iota
	MapReversed
	MapRotated
	MapPermuted
	NumMapPolicies
)

// Scheduler strategies.
const (
	SchedNone   = iota // never pre-empt (tasks run to completion in pick order)
	SchedRandom        // switch with probability SwitchPermille at enabled yield sites
	SchedPCT           // PCT: priority change points at chosen global yield indices
	SchedReplay        // follow recorded switches
)

// Yield site classes (bit mask for the site-class swarm).
const (
	ClassPool   = 1 << iota // pool Get/Put
	ClassSync               // sync.Map / WaitGroup / Mutex / Once operations
	ClassGlobal             // statement touching a mutable package-level variable
	ClassEntry              // function entry (jsonpatch packages)
	ClassLoop               // loop head (jsonpatch packages)
	ClassAll    = ClassPool | ClassSync | ClassGlobal | ClassEntry | ClassLoop
)

// Config is fixed for one run.
type Config struct {
	PoolPolicy    int
	EvictPermille int // probability (‰) that a Put drops the item (GC / race-mode drop)
	MapPolicy     int

	Sched          int
	SwitchPermille int
	ClassMask      int
	PCTPoints      []int64 // global yield indices at which the running task is demoted

	StepBudget int64 // per call

	// IntrudePermille: probability that a registered interfering call runs between a
	// pool Put and the caller's next instruction (single-task engines only).
	IntrudePermille int
}

// Violation is a monitor finding raised by the runtime itself.
type Violation struct {
	Class  string
	Detail string
}

// Stats counts what actually fired in this world.
type Stats struct {
	Steps              int64
	Yields             int64
	Switches           int64
	SwitchInCall       int64 // switches while another task had a library call in flight
	PoolGets           int64
	PoolNew            int64
	PoolReuse          int64 // Get served from the free list
	PoolReuseCrossKind int64
	PoolReuseAfterFail int64
	PoolReuseCrossTask int64
	PoolPuts           int64
	PoolEvicted        int64
	PoolLeaked         int64 // items obtained and never Put back by end of call
	KeysCalls          int64
	KeysNontrivial     int64 // len>=2 and order != sorted
	WGWaitBlocked      int64
	MutexBlocked       int64
	Deadlocks          int64
	Hangs              int64
	TapeClamped        int64
	TapeExhausted      int64
	Intrusions         int64
	StackGuard         int64
	ChildTasks         int64 // goroutines started by the library (rewritten go statements)
	ChanBlocked        int64 // channel operations that had to wait
	Selects            int64 // select statements executed
	SelectMultiReady   int64 // ... with more than one ready clause (a recorded decision)
	SelectHandover     int64 // ... completed directly between two selects
	CondWaits          int64
	ChildAbove         int64 // library goroutines given a priority above their parent's (PCT): they run first
}

// Event is one record of the trace ring.
type Event struct {
	Kind uint8
	Task int8
	A    uint32
	B    uint32
}

// Event kinds.
const (
	EvChoose = 1 + iota
	EvPoolGetNew
	EvPoolGetReuse
	EvPoolPut
	EvPoolEvict
	EvKeys
	EvSwitch
	EvCallBegin
	EvCallEnd
	EvBlock
	EvUnblock
	EvTaskExit
	EvPick
	EvUser
)

var evNames = [...]string{"?", "choose", "pool.new", "pool.reuse", "pool.put", "pool.evict", "keys", "switch", "call.begin", "call.end", "block", "unblock", "task.exit", "pick", "user"}

func (e Event) String() string {
	k := "?"
	if int(e.Kind) < len(evNames) {
		k = evNames[e.Kind]
	}
	return fmt.Sprintf("t%d %s %d %d", e.Task, k, e.A, e.B)
}

const ringSize = 512

// World is the simulator state of one run.
type World struct {
	Cfg   Config
	Stats Stats

	gen  uint64
	cur  *Task
	main Task

	tasks    []*Task
	mainWake chan int
	schedOn  bool
	inRun    bool

	picks      []int8 // forced picks (start, task exit, block): recorded or replayed
	pickPos    int
	pickReplay bool
	effPicks   []int8
	pctNext    int

	hash  uint64
	ring  [ringSize]Event
	ringN uint64

	viol  [8]Violation
	violN int

	callSerial uint64
	rotCtr     uint64
	poolCount  uint32

	chans      []*chanState // channels of library code (side table keyed by channel identity)
	chanTicket uint64
	selWaiters []*selWaiter // tasks parked in a select, in arrival order
	dead       bool         // the run is over: shims do nothing, parked library goroutines are being ended
	mainParked bool         // the main goroutine is parked as a task (waiting for goroutines the library started)

	// Intruder is the interfering call (set by the harness); intruding is true while it runs.
	Intruder  func()
	intruding bool
}

// W is the installed world (nil: shims degrade to plain deterministic behaviour).
var W *World

var genCounter uint64

// NewWorld creates a world.  The main goroutine is task -1 until tasks are spawned.
//
//go:norace
func NewWorld(cfg Config) *World {
	genCounter++
	w := &World{Cfg: cfg, gen: genCounter, hash: 0x9e3779b97f4a7c15}
	if w.Cfg.StepBudget <= 0 {
		w.Cfg.StepBudget = 50_000_000
	}
	w.main.id = -1
	w.main.wake = make(chan struct{}, 1)
	w.main.budget = w.Cfg.StepBudget
	w.main.state = taskRunnable
	w.cur = &w.main
	return w
}

// Install makes w the current world.
//
//go:norace
func Install(w *World) { W = w }

// Uninstall removes the current world.
//
//go:norace
func Uninstall() {
	if w := W; w != nil {
		w.Shutdown()
	}
	W = nil
}

//go:norace
func (w *World) ev(kind uint8, a, b uint32) {
	t := int8(-1)
	if w.cur != nil {
		t = int8(w.cur.id)
	}
	h := w.hash
	h ^= uint64(kind) | uint64(uint8(t))<<8 | uint64(a)<<16 | uint64(b)<<48
	h *= 0x100000001b3
	h ^= h >> 29
	h ^= uint64(b) >> 16
	h *= 0xbf58476d1ce4e5b9
	w.hash = h
	w.ring[w.ringN%ringSize] = Event{kind, t, a, b}
	w.ringN++
}

// UserEvent lets the harness fold its own observations (outcome digests) into the trace hash.
//
//go:norace
func (w *World) UserEvent(a, b uint32) { w.ev(EvUser, a, b) }

// TraceHash is the running hash of every event so far.
//
//go:norace
func (w *World) TraceHash() uint64 { return w.hash }

// EventsTail returns up to n most recent events, oldest first.
//
//go:norace
func (w *World) EventsTail(n int) []Event {
	total := int(w.ringN)
	if total > ringSize {
		total = ringSize
	}
	if n > total {
		n = total
	}
	out := make([]Event, 0, n)
	for i := w.ringN - uint64(n); i < w.ringN; i++ {
		out = append(out, w.ring[i%ringSize])
	}
	return out
}

//go:norace
func (w *World) violate(class, detail string) {
	if w.dead {
		return
	}
	if w.violN < len(w.viol) {
		w.viol[w.violN] = Violation{class, detail}
		w.violN++
	}
}

// Violations returns monitor findings raised by the runtime (pool misuse, deadlock).
//
//go:norace
func (w *World) Violations() []Violation {
	return append([]Violation(nil), w.viol[:w.violN]...)
}

// ---------------------------------------------------------------------------
// Decision sources

// Source is the stream of in-run decisions of one call: drawn from a PRNG and
// recorded (generate mode) or read back from the tape (replay mode).
type Source struct {
	s      uint64
	Tape   []uint32
	Replay bool
	// Lenient replay: exhausted tape reads 0, out-of-range values are reduced mod n.
	// Strict replay counts both as divergence.
	Lenient   bool
	pos       int
	Exhausted int
	Clamped   int

	// Scheduling decisions taken at yields inside this call.
	Switches []Switch
	swPos    int

	// In replay mode: what was effectively decided (equals Tape/Switches when
	// replay is exact; after lenient replay this is the strict re-recording).
	EffTape     []uint32
	EffSwitches []Switch
}

// Switch is a recorded pre-emption: at the Yield-th yield of the call, run task To.
type Switch struct {
	Yield int32
	To    int8
	// From: 0 = the task that made the call; k+1 = task k, a goroutine the library started during
	// the call (it shares the call's source and counts its own yields)
	From int8 `json:"From,omitempty"`
}

// NewSource returns a generating source.
func NewSource(seed uint64) *Source { return &Source{s: seed} }

// ReplaySource returns a source that replays tape and switches.
func ReplaySource(tape []uint32, sw []Switch, lenient bool) *Source {
	return &Source{Tape: tape, Switches: sw, Replay: true, Lenient: lenient}
}

//go:norace
func (s *Source) next() uint64 {
	s.s += 0x9e3779b97f4a7c15
	z := s.s
	z = (z ^ (z >> 30)) * 0xbf58476d1ce4e5b9
	z = (z ^ (z >> 27)) * 0x94d049bb133111eb
	return z ^ (z >> 31)
}

// Choose returns a value in [0,n).
//
//go:norace
func (s *Source) Choose(n int) int {
	if n <= 1 {
		return 0
	}
	if s.Replay {
		v := 0
		if s.pos >= len(s.Tape) {
			s.Exhausted++
		} else {
			v = int(s.Tape[s.pos])
			s.pos++
			if v >= n {
				s.Clamped++
				v %= n
			}
		}
		s.EffTape = append(s.EffTape, uint32(v))
		return v
	}
	v := int(s.next() % uint64(n))
	s.Tape = append(s.Tape, uint32(v))
	return v
}

// Mix derives a sub-seed.
func Mix(a, b uint64) uint64 {
	z := a ^ (b+0x9e3779b97f4a7c15)*0xbf58476d1ce4e5b9
	z = (z ^ (z >> 30)) * 0xbf58476d1ce4e5b9
	z = (z ^ (z >> 27)) * 0x94d049bb133111eb
	return z ^ (z >> 31)
}

// choose draws an in-run decision from the current call's source.
//
//go:norace
func (w *World) choose(kind uint32, n int) int {
	t := w.cur
	if t == nil || t.src == nil {
		return 0
	}
	v := t.src.Choose(n)
	w.ev(EvChoose, kind, uint32(v))
	return v
}

// ---------------------------------------------------------------------------
// Calls and the logical clock

// HangSentinel is the panic value used to unwind a call that exceeded its step budget.
type HangSentinel struct{ Steps int64 }

func (h HangSentinel) Error() string {
	return fmt.Sprintf("simrt: step budget exceeded (%d steps)", h.Steps)
}

// BeginCall marks the start of an API call by the current task.
//
//go:norace
func (w *World) BeginCall(id uint32, kind uint32, src *Source, budget int64) {
	t := w.cur
	w.callSerial++
	t.callSerial = w.callSerial
	t.callKind = kind
	t.inCall = true
	t.src = src
	t.callYields = 0
	t.callSteps = 0
	t.nextHang = 0
	t.budget = w.Cfg.StepBudget
	if budget > 0 {
		t.budget = budget
	}
	t.held = 0
	w.ev(EvCallBegin, id, kind)
}

// EndCall marks the end of the current task's call.  failed says whether the call
// returned an error or panicked (used by the adversarial pool policy).
func (w *World) EndCall(failed bool, digest uint32) (steps int64) {
	w.DrainChildren()
	return w.endCall(failed, digest)
}

//go:norace
func (w *World) endCall(failed bool, digest uint32) (steps int64) {
	t := w.cur
	if failed {
		markFailed(w, t.callSerial)
	}
	if t.held > 0 {
		w.Stats.PoolLeaked += int64(t.held)
	}
	steps = t.callSteps
	w.Stats.Steps += steps
	t.inCall = false
	t.src = nil
	w.ev(EvCallEnd, uint32(steps), digest)
	return steps
}

// Step advances the logical clock of the running call; inserted by simgen at
// every function entry and loop head.
//
//go:norace
func Step(site uint32) {
	w := W
	if w == nil || w.dead {
		return
	}
	t := w.cur
	t.callSteps++
	over := t.callSteps > t.budget
	if !over && t.callSteps&0x3ffff == 0 && tooDeep() {
		// runaway recursion: Go's own limit (1 GB) is a fatal error that no recover() sees, so the
		// call is ended as a hang while the process can still do it
		w.Stats.StackGuard++
		t.budget = t.callSteps - 1
		over = true
	}
	if !over {
		return
	}
	if t.hung {
		return // already being unwound by Goexit; deferred functions still step
	}
	if t.exitable {
		// The call runs on a goroutine of its own (harness: invoke): end that goroutine.
		// Goexit runs the deferred functions (pool Puts, unlocks) in linear time and cannot be
		// swallowed by a recover() in the library.  Unwinding by panic is not an option for deep
		// recursions: encodeState.marshal recovers and re-panics at every level, which makes
		// Go's panic machinery quadratic in the depth (a 2*10^6-frame recursion never finished).
		w.Stats.Hangs++
		t.hung = true
		t.hangSteps = t.callSteps
		runtime.Goexit()
	}
	// Fallback (callers that run the library on their own goroutine): unwind with a sentinel
	// panic, raised again later should a recover() in the library swallow it.
	if t.callSteps >= t.nextHang {
		if t.nextHang == 0 {
			w.Stats.Hangs++
		}
		t.nextHang = t.callSteps + 1_000_000
		panic(HangSentinel{t.callSteps})
	}
}

// SetExitable says whether the current task's call runs on a goroutine that may be ended
// with runtime.Goexit when it exceeds its budget.
//
//go:norace
func (w *World) SetExitable(b bool) { w.cur.exitable = b }

// TookExit reports (and clears) whether the current task's call was ended by Goexit, and at which step.
//
//go:norace
func (w *World) TookExit() (bool, int64) {
	t := w.cur
	h, s := t.hung, t.hangSteps
	t.hung, t.hangSteps = false, 0
	return h, s
}

// StepYield is Step followed by a pre-emption candidate.
//
//go:norace
func StepYield(site uint32, class int) {
	Step(site)
	Yield(site, class)
}

// CurrentSteps reports the logical time of the running call.
//
//go:norace
func (w *World) CurrentSteps() int64 { return w.cur.callSteps }

// Sites maps site ids to "pkg/file:line", registered by generated code.
var siteNames = map[uint32]string{}

// RegisterSites is called from generated init functions.
func RegisterSites(base uint32, names []string) {
	for i, n := range names {
		siteNames[base+uint32(i)] = n
	}
}

// SiteName resolves a site id.
func SiteName(id uint32) string {
	if n, ok := siteNames[id]; ok {
		return n
	}
	return fmt.Sprintf("site#%d", id)
}
