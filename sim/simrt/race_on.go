//go:build race

package simrt

import (
	"runtime"
	"unsafe"
)

// RaceEnabled reports whether this binary was built with -race.
const RaceEnabled = true

func raceDisable()                      { runtime.RaceDisable() }
func raceEnable()                       { runtime.RaceEnable() }
func raceAcquire(p unsafe.Pointer)      { runtime.RaceAcquire(p) }
func raceReleaseMerge(p unsafe.Pointer) { runtime.RaceReleaseMerge(p) }

// RaceErrors is the number of race reports printed so far by this process.
func RaceErrors() int { return runtime.RaceErrors() }
