package simrt

import "unsafe"

// Pool replaces sync.Pool in instrumented code.  Everything it does is inside
// sync.Pool's documented contract: Get returns an arbitrary item previously Put
// or calls New; Put may drop the item.
type Pool struct {
	New func() any

	gen   uint64
	items []poolItem
	idx   uint32 // registration index (for the event log)
	reg   bool
}

type poolItem struct {
	v        any
	putCall  uint64 // serial of the call that Put it
	putKind  uint32
	putTask  int8
	failed   bool // the call that Put it failed or panicked
	raceAddr *byte
}

const maxRegisteredPools = 64

var regPools [maxRegisteredPools]*Pool
var regPoolN int

//go:norace
func (p *Pool) state(w *World) {
	if p.gen != w.gen {
		p.gen = w.gen
		p.items = p.items[:0]
		// index = order of first use inside this world (a function of the run only)
		p.idx = w.poolCount
		w.poolCount++
	}
	if !p.reg {
		p.reg = true
		if regPoolN < maxRegisteredPools {
			regPools[regPoolN] = p
			regPoolN++
		}
	}
}

//go:norace
func markFailed(w *World, serial uint64) {
	for i := 0; i < regPoolN; i++ {
		p := regPools[i]
		if p.gen != w.gen {
			continue
		}
		for j := range p.items {
			if p.items[j].putCall == serial {
				p.items[j].failed = true
			}
		}
	}
}

// Get implements sync.Pool.Get.
func (p *Pool) Get() any {
	Yield(0, ClassPool)
	v, addr := p.get()
	if addr != nil {
		raceAcquire(unsafe.Pointer(addr))
	}
	if v == nil && p.New != nil {
		v = p.New()
	}
	return v
}

//go:norace
func (p *Pool) get() (any, *byte) {
	w := W
	if w == nil {
		return nil, nil
	}
	p.state(w)
	t := w.cur
	w.Stats.PoolGets++
	n := len(p.items)
	pick := -1
	if n > 0 && w.intruding {
		pick = n - 1 // the interfering goroutine receives exactly what was just Put
	} else if n > 0 {
		switch w.Cfg.PoolPolicy {
		case PoolFresh:
		case PoolLIFO:
			pick = n - 1
		case PoolFIFO:
			pick = 0
		case PoolArbitrary:
			pick = w.choose(1, n+1) - 1 // -1: ignore the pool
		case PoolAdversarial:
			// deterministic preference: failed-call item, then other task, then other kind, newest first
			best, bestScore := n-1, -1
			for i := n - 1; i >= 0; i-- {
				it := &p.items[i]
				s := 0
				if it.failed {
					s += 4
				}
				if it.putTask != int8(t.id) {
					s += 2
				}
				if it.putKind != t.callKind {
					s += 1
				}
				if s > bestScore {
					best, bestScore = i, s
				}
			}
			pick = best
		}
	}
	if pick < 0 {
		w.Stats.PoolNew++
		w.ev(EvPoolGetNew, p.idx, 0)
		t.held++
		return nil, nil
	}
	it := p.items[pick]
	// no copy()/append() here: runtime.slicecopy is race-instrumented even when
	// called from a norace function, and this bookkeeping must stay invisible
	for i := pick; i < n-1; i++ {
		p.items[i] = p.items[i+1]
	}
	p.items[n-1] = poolItem{}
	p.items = p.items[:n-1]
	w.Stats.PoolReuse++
	if it.failed {
		w.Stats.PoolReuseAfterFail++
	}
	if it.putTask != int8(t.id) {
		w.Stats.PoolReuseCrossTask++
	}
	if it.putKind != t.callKind {
		w.Stats.PoolReuseCrossKind++
	}
	w.ev(EvPoolGetReuse, p.idx, uint32(pick))
	t.held++
	return it.v, it.raceAddr
}

// Put implements sync.Pool.Put.
func (p *Pool) Put(x any) {
	if x == nil {
		putNil()
		return
	}
	addr := p.put(x)
	if addr != nil {
		// the one happens-before edge a real pool provides: Put -> later Get of the same item
		raceReleaseMerge(unsafe.Pointer(addr))
	}
	if addr != nil && wantIntrusion() {
		intrude()
	}
	Yield(0, ClassPool)
}

// wantIntrusion decides whether "another goroutine" gets to use the pool right after
// this Put and before the caller's next instruction - the window a real sync.Pool
// leaves open as soon as Put returns.  The single-task engines have no second task
// to schedule there, so the world runs a registered interfering call re-entrantly.
//
//go:norace
func wantIntrusion() bool {
	w := W
	if w == nil || w.Intruder == nil || w.intruding || w.Cfg.IntrudePermille <= 0 || !w.cur.inCall || w.cur.src == nil {
		return false
	}
	return w.choose(3, 1000) < w.Cfg.IntrudePermille
}

func intrude() {
	w := W
	saved := w.beginIntrusion()
	func() {
		defer func() { recover() }() // the interfering call's own failures are not under test here
		w.Intruder()
	}()
	w.endIntrusion(saved)
}

//go:norace
func (w *World) beginIntrusion() Task {
	t := w.cur
	saved := *t
	w.intruding = true
	w.Stats.Intrusions++
	w.callSerial++
	t.callSerial = w.callSerial
	t.callKind = 0xfffe
	t.src = nil
	t.callSteps = 0
	t.nextHang = 0
	t.budget = 50_000_000
	t.held = 0
	w.ev(EvUser, 0xfffe, 0)
	return saved
}

//go:norace
func (w *World) endIntrusion(saved Task) {
	t := w.cur
	t.src, t.callSerial, t.callKind, t.callYields, t.callSteps, t.budget, t.held, t.inCall, t.nextHang = saved.src, saved.callSerial, saved.callKind, saved.callYields, saved.callSteps, saved.budget, saved.held, saved.inCall, saved.nextHang
	w.intruding = false
}

//go:norace
func putNil() {
	if w := W; w != nil {
		// sync.Pool.Put(nil) is a documented no-op; counted as a probe only.
		w.ev(EvPoolPut, 0xffffffff, 0)
	}
}

//go:norace
func (p *Pool) put(x any) *byte {
	w := W
	if w == nil {
		return nil
	}
	p.state(w)
	t := w.cur
	w.Stats.PoolPuts++
	if t.held > 0 {
		t.held--
	}
	// the double-Put monitor looks at the most recent items only and the free list is capped
	// (dropping an item is what a GC does): a runaway recursion that is being unwound Puts
	// millions of states, and a linear scan per Put made that unwinding quadratic
	lo := len(p.items) - 64
	if lo < 0 {
		lo = 0
	}
	for i := len(p.items) - 1; i >= lo; i-- {
		if sameObject(p.items[i].v, x) {
			w.violate("pool-double-put", "an object was Put into a pool that already holds it")
			return nil
		}
	}
	if len(p.items) >= 256 {
		w.Stats.PoolEvicted++
		w.ev(EvPoolEvict, p.idx, 1)
		return nil
	}
	if w.Cfg.EvictPermille > 0 && !w.intruding && w.choose(2, 1000) < w.Cfg.EvictPermille {
		w.Stats.PoolEvicted++
		w.ev(EvPoolEvict, p.idx, 0)
		return nil
	}
	addr := new(byte)
	p.items = append(p.items, poolItem{v: x, putCall: t.callSerial, putKind: t.callKind, putTask: int8(t.id), raceAddr: addr})
	w.ev(EvPoolPut, p.idx, uint32(len(p.items)))
	return addr
}

type eface struct{ typ, data unsafe.Pointer }

// sameObject reports whether two interface values hold the identical object
// (same dynamic type and same data word); never panics on uncomparable types.
//
//go:norace
func sameObject(a, b any) bool {
	ea := (*eface)(unsafe.Pointer(&a))
	eb := (*eface)(unsafe.Pointer(&b))
	return ea.typ == eb.typ && ea.data == eb.data
}
