package simrt

import (
	"reflect"
	"unsafe"
)

// Channels of library code.  Rewritten channel operations (simgen R6) never touch the real channel:
// its identity is the key of a side table in which the world keeps the channel's queue, so that a
// blocked sender or receiver gives the baton away instead of blocking the one running thread.
// Outside a world the operations fall through to the real channel.
//
// Happens-before for the race detector: a send releases, the matching receive acquires (and for
// an unbuffered channel the receive also releases to the sender's completion), on a per-channel
// address - the edges real channels give.

type chanState struct {
	key       unsafe.Pointer
	q         []chanItem
	capN      int
	closed    bool
	taken     uint64 // tickets of unbuffered offers that a receiver took
	rwait     int    // plain receivers parked on this channel
	selTicket uint64 // ticket of the offer a select just made on this (unbuffered) channel
	sema      byte
	rsema     byte
}

type chanItem struct {
	v      any
	ticket uint64
}

var chanToken byte

//go:norace
func (w *World) chanFor(key unsafe.Pointer, capN int) *chanState {
	for _, c := range w.chans {
		if c.key == key {
			return c
		}
	}
	c := &chanState{key: key, capN: capN}
	w.chans = append(w.chans, c)
	return c
}

// SendChan / RecvChan: any channel type (named or not) through which values of T can be sent / received.
type SendChan[T any] interface{ ~chan T | ~chan<- T }
type RecvChan[T any] interface{ ~chan T | ~<-chan T }

func chanKey[C any](c C) unsafe.Pointer { return *(*unsafe.Pointer)(unsafe.Pointer(&c)) }

//go:norace
func (w *World) chanWait(what string) {
	w.Stats.ChanBlocked++
	w.block(unsafe.Pointer(&chanToken), what)
}

//go:norace
func (w *World) chanWake() { w.unblock(unsafe.Pointer(&chanToken)) }

// Send implements `c <- v`.
func Send[C SendChan[T], T any](c C, v T) {
	w := W
	if w == nil {
		c <- v
		return
	}
	Yield(0, ClassSync)
	if c == nil {
		for {
			w.chanWait("send on nil channel")
		}
	}
	st := w.chanFor(chanKey(c), cap(c))
	ticket := sendOffer(w, st, v)
	raceReleaseMerge(unsafe.Pointer(&st.sema))
	for !sendDone(w, st, ticket) {
		w.chanWait("channel send")
		if sendClosed(st) {
			panic("send on closed channel")
		}
	}
	if st.capN == 0 {
		raceAcquire(unsafe.Pointer(&st.rsema))
	}
}

//go:norace
func sendClosed(st *chanState) bool { return st.closed }

// sendOffer enqueues the value (buffered: once there is room) and returns a ticket.
//
//go:norace
func sendOffer(w *World, st *chanState, v any) uint64 {
	if st.closed {
		panic("send on closed channel")
	}
	w.chanTicket++
	st.q = append(st.q, chanItem{v: v, ticket: w.chanTicket})
	w.chanWake()
	return w.chanTicket
}

// sendDone: a buffered send is complete when its item is within the first cap items of the
// queue (it "fits"), an unbuffered one when a receiver has taken it.
//
//go:norace
func sendDone(w *World, st *chanState, ticket uint64) bool {
	for i := range st.q {
		if st.q[i].ticket == ticket {
			return st.capN > 0 && i < st.capN
		}
	}
	return true // taken
}

// Recv implements `<-c`.
func Recv[C RecvChan[T], T any](c C) T {
	v, _ := Recv2[C, T](c)
	return v
}

// Recv2 implements `v, ok := <-c`.
func Recv2[C RecvChan[T], T any](c C) (T, bool) {
	w := W
	if w == nil {
		v, ok := <-c
		return v, ok
	}
	Yield(0, ClassSync)
	var zero T
	if c == nil {
		for {
			w.chanWait("receive from nil channel")
		}
	}
	st := w.chanFor(chanKey(c), cap(c))
	for {
		v, ok, got := recvTry(w, st)
		if got {
			raceAcquire(unsafe.Pointer(&st.sema))
			if !ok {
				return zero, false
			}
			if st.capN == 0 {
				raceReleaseMerge(unsafe.Pointer(&st.rsema))
			}
			return v.(T), true
		}
		recvPark(w, st, +1)
		w.chanWait("channel receive")
		recvPark(w, st, -1)
	}
}

// recvPark counts the plain receivers parked on a channel (a select with a send case on an
// unbuffered channel is ready when one is) and lets waiting selects look again.
//
//go:norace
func recvPark(w *World, st *chanState, d int) {
	st.rwait += d
	if d > 0 && len(w.selWaiters) > 0 {
		w.chanWake()
	}
}

//go:norace
func recvTry(w *World, st *chanState) (v any, ok bool, got bool) {
	if len(st.q) > 0 {
		it := st.q[0]
		for i := 1; i < len(st.q); i++ {
			st.q[i-1] = st.q[i]
		}
		st.q[len(st.q)-1] = chanItem{}
		st.q = st.q[:len(st.q)-1]
		w.chanWake()
		return it.v, true, true
	}
	if st.closed {
		return nil, false, true
	}
	return nil, false, false
}

// Close implements close(c).
func Close[C SendChan[T], T any](c C) {
	w := W
	if w == nil {
		close(c)
		return
	}
	Yield(0, ClassSync)
	if c == nil {
		panic("close of nil channel")
	}
	st := w.chanFor(chanKey(c), cap(c))
	raceReleaseMerge(unsafe.Pointer(&st.sema))
	closeChan(w, st)
}

//go:norace
func closeChan(w *World, st *chanState) {
	if st.closed {
		panic("close of closed channel")
	}
	st.closed = true
	w.chanWake()
}

// Len implements len(c) for a channel of any type and direction.
func Len(c any) int {
	rv := reflect.ValueOf(c)
	w := W
	if w == nil || rv.Kind() != reflect.Chan || rv.IsNil() {
		if rv.Kind() == reflect.Chan {
			return rv.Len()
		}
		return 0
	}
	return chanLen(w.chanFor(unsafe.Pointer(rv.Pointer()), rv.Cap()))
}

//go:norace
func chanLen(st *chanState) int {
	n := len(st.q)
	if st.capN < n {
		n = st.capN
	}
	return n
}
