#!/bin/sh
# Builds the framework binaries (instrumenter and driver) from files on disk only.
set -e
cd "$(dirname "$0")"
export GOFLAGS=-mod=mod GOPROXY=off GOSUMDB=off GOTOOLCHAIN=local
mkdir -p bin evidence replays
(cd sim && go build -o ../bin/simgen ./simgen && go build -o ../bin/drv ./driver)
echo "setup: built bin/simgen bin/drv"
